#!/bin/bash
# Builds /verif/.venv offline: a venv of /venv's interpreter that also sees
# /venv's site-packages (repo dependencies) and has crosshair-tool, z3-solver,
# cvc5, jsonschema from the offline wheelhouse.  Idempotent.
set -e
cd "$(dirname "$0")"
V=/verif/.venv
STAMP=$V/.ok
if [ -f "$STAMP" ]; then exit 0; fi
(
  flock 9
  if [ -f "$STAMP" ]; then exit 0; fi
  rm -rf "$V"
  /venv/bin/python -m venv "$V"
  SP=$("$V/bin/python" -c "import sysconfig;print(sysconfig.get_paths()['purelib'])")
  # /venv is itself a venv, so --system-site-packages would not see it.
  echo "import site; site.addsitedir('/venv/lib/python3.12/site-packages')" > "$SP/zz_overlay.pth"
  PIP_NO_INDEX=1 "$V/bin/python" -m pip install -q --no-index --find-links /opt/veriftools/wheels \
      crosshair-tool z3-solver cvc5 jsonschema >/dev/null
  touch "$STAMP"
) 9>/verif/.bootstrap.lock
