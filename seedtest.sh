#!/bin/bash
# usage: seedtest.sh <PROP> <worktree> <mutant-dir-name> [tier]
# Applies the mutant inside its own scratch worktree, runs its demo and the
# check (through INDIPY_SRC, /repo stays untouched), then restores the worktree.
P=$1; WT=$2; M=$3; TIER=${4:-quick}
cd $WT && git checkout -q -- indi && git apply seeded/$M/patch.diff || { echo "patch does not apply"; exit 9; }
PYTHONPATH=$WT /venv/bin/python seeded/$M/demo.py > /tmp/demo_$P_$M.out 2>&1; echo "demo exit with change: $?"
cd /verif && INDIPY_SRC=$WT VF_ONLY=${ONLY:-} ./check.sh $P $TIER > /verif/scratch/seed_${P}_${M}.log 2>&1; RC=$?
echo "check exit: $RC"; grep -E "VIOLATION|violated condition|INCONCLUSIVE|HOLDS|KNOWN" /verif/scratch/seed_${P}_${M}.log | head -8 | cut -c1-220
cd $WT && git checkout -q -- indi
PYTHONPATH=$WT /venv/bin/python seeded/$M/demo.py > /dev/null 2>&1; echo "demo exit without change: $?"
