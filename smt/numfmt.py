"""SMT engine for the number kernels (DESIGN 3.2): AST -> SMT translation of
indi.device.values.num_to_str / str_to_num and indi.message.checks.number,
re-read from the tree under analysis on every run.

Concrete sub-expressions (everything that depends only on the format string)
are evaluated by Python itself; expressions depending on the value n or the
text s become z3 terms.  Anything outside the supported subset raises
Unsupported -> the check is INCONCLUSIVE naming the construct (fail closed).
"""
from __future__ import annotations

import ast
import math
import os
import re
import re._parser as sre
from typing import Any, Dict, List, Optional, Tuple

import z3


class Unsupported(Exception):
    pass


# ---------------------------------------------------------------------------
# Python regex -> z3 regex (Latin-1 wire alphabet: \d = [0-9])

STR = z3.StringSort()
RE = z3.ReSort(STR)


def _lit(c):
    return z3.Re(z3.StringVal(chr(c)))


DIGIT = z3.Range("0", "9")
ANYCHAR = z3.Diff(z3.AllChar(RE), z3.Re(z3.StringVal("\n")))   # '.' without DOTALL
EPS = z3.Re(z3.StringVal(""))


def _seq(items) -> Any:
    items = [i for i in items if i is not None]
    if not items:
        return EPS
    if len(items) == 1:
        return items[0]
    return z3.Concat(*items)


def _tr(parsed, groups) -> Any:
    out = []
    for op, arg in parsed:
        name = str(op)
        if name == "LITERAL":
            out.append(_lit(arg))
        elif name == "NOT_LITERAL":
            out.append(z3.Diff(z3.AllChar(RE), _lit(arg)))
        elif name == "ANY":
            out.append(ANYCHAR)
        elif name == "IN":
            alts = []
            negate = False
            for o, a in arg:
                on = str(o)
                if on == "NEGATE":
                    negate = True
                elif on == "LITERAL":
                    alts.append(_lit(a))
                elif on == "RANGE":
                    alts.append(z3.Range(chr(a[0]), chr(a[1])))
                elif on == "CATEGORY" and str(a) == "CATEGORY_DIGIT":
                    alts.append(DIGIT)
                elif on == "CATEGORY" and str(a) == "CATEGORY_SPACE":
                    alts.append(z3.Union(*[_lit(ord(c)) for c in " \t\n\r\f\v"]))
                else:
                    raise Unsupported(f"regex class item {on} {a}")
            u = alts[0] if len(alts) == 1 else z3.Union(*alts)
            out.append(z3.Diff(z3.AllChar(RE), u) if negate else u)
        elif name in ("MAX_REPEAT", "MIN_REPEAT"):
            lo, hi, sub = arg
            r = _seq([x for x in _tr(sub, groups) if not isinstance(x, tuple)])
            if lo == 0 and hi == 1:
                out.append(z3.Option(r))
            elif lo == 0 and str(hi) == "MAXREPEAT":
                out.append(z3.Star(r))
            elif lo == 1 and str(hi) == "MAXREPEAT":
                out.append(z3.Plus(r))
            elif str(hi) == "MAXREPEAT":
                out.append(z3.Concat(z3.Loop(r, lo, lo), z3.Star(r)))
            else:
                out.append(z3.Loop(r, lo, hi))
        elif name == "SUBPATTERN":
            gid = arg[0]
            r = _seq([x for x in _tr(arg[3], groups) if not isinstance(x, tuple)])
            if gid is not None:
                groups[gid] = r
            out.append(r)
        elif name == "BRANCH":
            out.append(z3.Union(*[_seq([x for x in _tr(b, groups) if not isinstance(x, tuple)]) for b in arg[1]]))
        elif name == "AT":
            an = str(arg)
            if an in ("AT_BEGINNING", "AT_BEGINNING_STRING"):
                out.append(("BEGIN",))
            elif an in ("AT_END", "AT_END_STRING"):
                out.append(("END", an))
            else:
                raise Unsupported(f"regex anchor {an}")
        else:
            raise Unsupported(f"regex operator {name}")
    # anchors are only supported at the two ends
    body = []
    for i, o in enumerate(out):
        if isinstance(o, tuple):
            if o[0] == "BEGIN" and i == 0:
                continue
            if o[0] == "END" and i == len(out) - 1:
                body.append(o)
                continue
            raise Unsupported("regex anchor in the middle of a pattern")
        body.append(o)
    return body


def match_language(pattern: str, stripped_input: bool = True):
    """Language of strings s for which re.match(pattern, s) succeeds.
    re.match anchors at the start only; '$' also matches before a final newline
    (modelled unless the input is known to carry no surrounding white space)."""
    groups: Dict[int, Any] = {}
    body = _tr(sre.parse(pattern), groups)
    end_anchored = bool(body) and isinstance(body[-1], tuple)
    core = _seq([b for b in body if not isinstance(b, tuple)])
    if end_anchored:
        if stripped_input:
            return core, groups
        return z3.Concat(core, z3.Option(z3.Re(z3.StringVal("\n")))), groups
    return z3.Concat(core, z3.Star(z3.AllChar(RE))), groups


def group_regexes(pattern: str):
    """The pattern as an ordered list of segments: ('group', id, re) / ('sep', re)."""
    parsed = sre.parse(pattern)
    segs = []
    for op, arg in parsed:
        name = str(op)
        if name == "AT":
            continue
        if name == "SUBPATTERN" and arg[0] is not None:
            segs.append(("group", arg[0], _seq(_tr(arg[3], {}))))
        else:
            segs.append(("sep", None, _seq(_tr([(op, arg)], {}))))
    return segs


# ---------------------------------------------------------------------------
# Sources

def load(src_root: str):
    out = {}
    for rel, names in (("indi/device/values.py", ("num_to_str", "str_to_num")), ("indi/message/checks.py", ("number",))):
        path = os.path.join(src_root, rel)
        tree = ast.parse(open(path).read(), path)
        for node in tree.body:
            if isinstance(node, ast.FunctionDef) and node.name in names:
                out[node.name] = node
    for n in ("num_to_str", "str_to_num", "number"):
        if n not in out:
            raise Unsupported(f"function {n} not found in the source")
    return out


# ---------------------------------------------------------------------------
# A small symbolic interpreter

class Sym:
    """A symbolic numeric value: z3 term + kind ('int' | 'real')."""

    def __init__(self, term, kind):
        self.term, self.kind = term, kind


class SymText:
    """The symbolic input text of str_to_num."""


class SymMatch:
    def __init__(self, pattern):
        self.pattern = pattern


class SymGroups:
    def __init__(self, pattern):
        self.pattern = pattern


class SymGroup:
    def __init__(self, pattern, index):
        self.pattern, self.index = pattern, index


class Field:
    """One piece of a rendered text."""

    def __init__(self, kind, value=None, spec="", text=None):
        self.kind, self.value, self.spec, self.text = kind, value, spec, text   # kind: lit | num

    def __repr__(self):
        return f"Field({self.kind},{self.spec!r},{self.text!r})"


class Rendered:
    noplus = False

    def __init__(self, fields=None, printf=None, arg=None, stripped=False):
        self.fields, self.printf, self.arg, self.stripped = fields, printf, arg, stripped


class Raise(Exception):
    def __init__(self, what):
        self.what = what


class _Return(Exception):
    def __init__(self, value):
        self.value = value


class Interp:
    """Executes one function body along one path; symbolic conditions on the
    input text are decided by a replayed decision list (DFS in interpret())."""

    def __init__(self, fn: ast.FunctionDef, args: Dict[str, Any], decisions: List[bool]):
        self.fn = fn
        self.args = args
        self.fresh = 0
        self.decisions = list(decisions)
        self.taken: List[bool] = []
        self.conds: List[Tuple[str, Any, bool]] = []

    def run(self):
        cons: List[Any] = []
        self.cons = cons
        try:
            self._block(self.fn.body, dict(self.args), cons)
            res = ("return", None)
        except _Return as r:
            res = ("return", r.value)
        except Raise as r:
            res = ("raise", r.what)
        return cons, self.conds, res

    def _decide(self, kind, what):
        i = len(self.taken)
        val = self.decisions[i] if i < len(self.decisions) else True
        self.taken.append(val)
        self.conds.append((kind, what, val))
        return val

    # ---- statements
    def _block(self, stmts, env, cons):
        for st in stmts:
            if isinstance(st, ast.Expr) and isinstance(st.value, ast.Constant):
                continue
            if isinstance(st, ast.Return):
                raise _Return(self.ev(st.value, env, cons) if st.value is not None else None)
            if isinstance(st, ast.Assign):
                if len(st.targets) == 1 and isinstance(st.targets[0], ast.Tuple) and all(isinstance(e, ast.Name) for e in st.targets[0].elts):
                    v = self.ev(st.value, env, cons)
                    if not isinstance(v, SymGroups):
                        raise Unsupported("tuple assignment from " + type(v).__name__)
                    for i, e in enumerate(st.targets[0].elts):
                        env[e.id] = SymGroup(v.pattern, i)
                    continue
                if len(st.targets) != 1 or not isinstance(st.targets[0], ast.Name):
                    raise Unsupported("assignment target " + ast.dump(st.targets[0])[:60])
                env[st.targets[0].id] = self.ev(st.value, env, cons)
                continue
            if isinstance(st, ast.Assert):
                v = self.ev(st.test, env, cons)
                if isinstance(v, (Sym, tuple)):
                    raise Unsupported("assert on a symbolic condition")
                if not v:
                    raise Raise("AssertionError")
                continue
            if isinstance(st, ast.Raise):
                raise Raise(ast.unparse(st.exc)[:60] if st.exc else "raise")
            if isinstance(st, ast.If):
                t = self.truth(self.ev(st.test, env, cons))
                self._block(st.body if t else st.orelse, env, cons)
                continue
            raise Unsupported("statement " + type(st).__name__)

    def truth(self, t):
        if isinstance(t, tuple) and t and t[0] == "cond":
            neg = t[1].startswith("not:")
            v = self._decide(t[1][4:] if neg else t[1], t[2])
            return (not v) if neg else v
        if isinstance(t, SymMatch):
            return self._decide("match", t.pattern)
        if isinstance(t, tuple) and t and t[0] == "ncond":
            v = self._decide("numeric", t[1])
            self.cons.append(t[1] if v else z3.Not(t[1]))
            return v
        if isinstance(t, SymGroup):
            return self._decide("group-truthy", t.index)
        if isinstance(t, Sym):
            raise Unsupported("truth value of a number")
        return bool(t)

    # ---- expressions
    def _concrete(self, node, env):
        names = {n.id for n in ast.walk(node) if isinstance(n, ast.Name)}
        vals = {}
        for n in names:
            if n in env:
                v = env[n]
                if isinstance(v, (Sym, SymText, SymMatch, SymGroups, SymGroup, Rendered, tuple)) and not _plain_tuple(v):
                    return False, None
                vals[n] = v
        glob = {"re": re, "math": math, "str": str, "int": int, "float": float, "len": len, "isinstance": isinstance,
                "any": any, "all": all, "None": None}
        try:
            return True, eval(compile(ast.Expression(node), "<src>", "eval"), glob, vals)
        except Exception as e:
            raise Raise(type(e).__name__)

    def ev(self, node, env, cons):
        ok, v = self._concrete(node, env)
        if ok:
            return v
        if isinstance(node, ast.Name):
            return env[node.id]
        if isinstance(node, ast.Constant):
            return node.value
        if isinstance(node, ast.UnaryOp) and isinstance(node.op, ast.Not):
            t = self.ev(node.operand, env, cons)
            if isinstance(t, tuple) and t[0] == "cond":
                return ("cond", ("not:" + t[1]) if not t[1].startswith("not:") else t[1][4:], t[2])
            if isinstance(t, SymMatch):
                return ("cond", "not:match", t.pattern)
            if isinstance(t, (Sym, SymText, SymGroups, SymGroup, Rendered)):
                raise Unsupported("not on " + type(t).__name__)
            return not t
        if isinstance(node, ast.UnaryOp) and isinstance(node.op, ast.USub):
            t = self.ev(node.operand, env, cons)
            if isinstance(t, Sym):
                return Sym(-t.term, t.kind)
        if isinstance(node, ast.Compare) and len(node.ops) == 1:
            a = self.ev(node.left, env, cons)
            b = self.ev(node.comparators[0], env, cons)
            if isinstance(node.ops[0], ast.In) and isinstance(b, SymText) and isinstance(a, str):
                return ("cond", "contains", a)
            if isinstance(node.ops[0], ast.In) and isinstance(b, SymGroup) and isinstance(a, str):
                return ("cond", "group-contains", (b.index, a))
            if isinstance(node.ops[0], (ast.Is, ast.IsNot)) and isinstance(a, SymGroup) and b is None:
                c = ("cond", "group-absent", a.index)
                return c if isinstance(node.ops[0], ast.Is) else ("cond", "not:group-absent", a.index)
            if isinstance(node.ops[0], (ast.Eq, ast.NotEq)) and isinstance(a, SymGroup) and isinstance(b, str):
                c = ("cond", "group-equals", (a.index, b))
                return c if isinstance(node.ops[0], ast.Eq) else ("cond", "not:group-equals", (a.index, b))
            if (isinstance(a, Sym) or isinstance(b, Sym)) and isinstance(node.ops[0], (ast.Lt, ast.LtE, ast.Gt, ast.GtE, ast.Eq, ast.NotEq)) \
                    and all(isinstance(x, (Sym, int, float)) and not isinstance(x, bool) for x in (a, b)):
                ta = a.term if isinstance(a, Sym) else z3.RealVal(repr(a) if isinstance(a, float) else a)
                tb = b.term if isinstance(b, Sym) else z3.RealVal(repr(b) if isinstance(b, float) else b)
                o = node.ops[0]
                table = {ast.Lt: ta < tb, ast.LtE: ta <= tb, ast.Gt: ta > tb, ast.GtE: ta >= tb, ast.Eq: ta == tb, ast.NotEq: ta != tb}
                for k, v in table.items():
                    if isinstance(o, k):
                        return ("ncond", v)
            if isinstance(node.ops[0], ast.Is) and isinstance(a, (Sym, SymText)) and b is None:
                return False
            if isinstance(node.ops[0], ast.IsNot) and isinstance(a, (Sym, SymText)) and b is None:
                return True
            raise Unsupported("comparison " + ast.unparse(node)[:60])
        if isinstance(node, ast.BinOp):
            if isinstance(node.op, ast.Mod):
                a = self.ev(node.left, env, cons)
                b = self.ev(node.right, env, cons)
                if isinstance(a, str) and isinstance(b, Sym):
                    return Rendered(printf=a, arg=b)
                if isinstance(a, Sym) and a.kind == "int" and isinstance(b, int) and not isinstance(b, bool) and b > 0:
                    # Python's % on integers: a = q*b + r with 0 <= r < b
                    self.fresh += 1
                    q, r = z3.Int(f"q{self.fresh}"), z3.Int(f"m{self.fresh}")
                    cons.append(z3.And(a.term == z3.ToReal(q) * b + z3.ToReal(r), r >= 0, r < b))
                    return Sym(z3.ToReal(r), "int")
                raise Unsupported("% on " + type(a).__name__)
            a = self.ev(node.left, env, cons)
            b = self.ev(node.right, env, cons)
            return self._arith(node.op, a, b)
        if isinstance(node, ast.IfExp):
            t = self.truth(self.ev(node.test, env, cons))
            return self.ev(node.body if t else node.orelse, env, cons)
        if isinstance(node, ast.BoolOp) and isinstance(node.op, ast.Or) and len(node.values) == 2:
            a = self.ev(node.values[0], env, cons)
            if isinstance(a, SymGroup):
                # "<group> or <default>": an absent group is None, a present digit group is truthy
                if self._decide("group-absent", a.index):
                    return self.ev(node.values[1], env, cons)
                return a
            raise Unsupported("or on " + type(a).__name__)
        if isinstance(node, ast.JoinedStr):
            fields = []
            for part in node.values:
                if isinstance(part, ast.Constant):
                    fields.append(Field("lit", text=part.value))
                elif isinstance(part, ast.FormattedValue):
                    v = self.ev(part.value, env, cons)
                    spec = ""
                    if part.format_spec is not None:
                        ok, spec = self._concrete(part.format_spec, env)
                        if not ok:
                            raise Unsupported("symbolic format spec")
                    if part.conversion not in (-1, None):
                        raise Unsupported("f-string conversion")
                    if isinstance(v, Sym):
                        fields.append(Field("num", v, spec))
                    else:
                        fields.append(Field("lit", text=format(v, spec)))
                else:
                    raise Unsupported("f-string part")
            return Rendered(fields=fields)
        if isinstance(node, ast.Subscript):
            base = self.ev(node.value, env, cons)
            ok, idx = self._concrete(node.slice, env)
            if isinstance(base, SymGroups) and ok and isinstance(idx, int):
                return SymGroup(base.pattern, idx)
            raise Unsupported("subscript on " + type(base).__name__)
        if isinstance(node, ast.Call):
            f = node.func
            # math.floor / int / float / str on symbolic values
            if isinstance(f, ast.Attribute) and isinstance(f.value, ast.Name) and f.value.id == "math" and f.attr in ("floor", "ceil", "trunc"):
                x = self.ev(node.args[0], env, cons)
                if isinstance(x, Sym):
                    return self._round(x, f.attr, cons)
            if isinstance(f, ast.Name) and f.id == "int" and len(node.args) == 1:
                x = self.ev(node.args[0], env, cons)
                if isinstance(x, Sym):
                    return self._round(x, "trunc", cons)
                if isinstance(x, SymText):
                    return ("int_of_text",)
                if isinstance(x, SymGroup):
                    return Sym(z3.Real(f"g{x.index}"), "real")
            if isinstance(f, ast.Name) and f.id == "float" and len(node.args) == 1:
                x = self.ev(node.args[0], env, cons)
                if isinstance(x, Sym):
                    return Sym(x.term, "real")
                if isinstance(x, SymText):
                    return ("float_of_text",)
                if isinstance(x, SymGroup):
                    return Sym(z3.Real(f"g{x.index}"), "real")
                if isinstance(x, (int, float)):
                    return float(x)
            if isinstance(f, ast.Name) and f.id == "round" and len(node.args) == 2:
                x = self.ev(node.args[0], env, cons)
                ok, nd = self._concrete(node.args[1], env)
                if isinstance(x, Sym) and ok and isinstance(nd, int) and 0 <= nd <= 9:
                    self.fresh += 1
                    k = z3.Int(f"k{self.fresh}")
                    sc = 10 ** nd
                    cons.append(z3.And(z3.ToReal(k) - z3.RealVal("1/2") <= x.term * sc, x.term * sc <= z3.ToReal(k) + z3.RealVal("1/2")))
                    return Sym(z3.ToReal(k) / sc, "real" if nd else "int")
            if isinstance(f, ast.Name) and f.id == "round" and len(node.args) == 1:
                x = self.ev(node.args[0], env, cons)
                if isinstance(x, Sym):
                    # round half to even: within 1/2 of the argument (ties either way)
                    self.fresh += 1
                    k = z3.Int(f"k{self.fresh}")
                    cons.append(z3.And(z3.ToReal(k) - z3.RealVal("1/2") <= x.term, x.term <= z3.ToReal(k) + z3.RealVal("1/2")))
                    return Sym(z3.ToReal(k), "int")
            if isinstance(f, ast.Name) and f.id == "abs" and len(node.args) == 1:
                x = self.ev(node.args[0], env, cons)
                if isinstance(x, Sym):
                    return Sym(z3.If(x.term >= 0, x.term, -x.term), x.kind)
            if isinstance(f, ast.Name) and f.id == "str" and len(node.args) == 1:
                x = self.ev(node.args[0], env, cons)
                if isinstance(x, SymText):
                    return x
            if isinstance(f, ast.Name) and f.id == "isinstance":
                x = self.ev(node.args[0], env, cons)
                if isinstance(x, SymText):
                    return True          # s is a str in the claim
            if isinstance(f, ast.Attribute) and isinstance(f.value, ast.Name) and f.value.id == "re" and f.attr == "match":
                ok, pat = self._concrete(node.args[0], env)
                x = self.ev(node.args[1], env, cons)
                if ok and isinstance(x, SymText):
                    return SymMatch(pat)
            if isinstance(f, ast.Attribute) and f.attr == "groups":
                x = self.ev(f.value, env, cons)
                if isinstance(x, SymMatch):
                    return SymGroups(x.pattern)
            if isinstance(f, ast.Attribute) and f.attr == "lstrip" and len(node.args) == 1:
                x = self.ev(f.value, env, cons)
                ok, arg = self._concrete(node.args[0], env)
                if isinstance(x, Rendered) and ok and arg == "+":
                    r2 = Rendered(fields=x.fields, printf=x.printf, arg=x.arg, stripped=x.stripped)
                    r2.noplus = True
                    return r2
            if isinstance(f, ast.Attribute) and f.attr in ("strip", "lstrip", "rstrip") and not node.args:
                x = self.ev(f.value, env, cons)
                if isinstance(x, Rendered):
                    if f.attr != "strip":
                        raise Unsupported(f.attr)
                    return Rendered(fields=x.fields, printf=x.printf, arg=x.arg, stripped=True)
                if isinstance(x, SymText):
                    return x           # the claim is about texts without surrounding blanks
            raise Unsupported("call " + ast.unparse(node)[:70])
        raise Unsupported("expression " + ast.unparse(node)[:70])

    def _round(self, x: Sym, how, cons):
        self.fresh += 1
        k = z3.Int(f"k{self.fresh}")
        kr = z3.ToReal(k)
        if how == "floor":
            cons.append(z3.And(kr <= x.term, x.term < kr + 1))
        elif how == "ceil":
            cons.append(z3.And(kr - 1 < x.term, x.term <= kr))
        else:   # truncation toward zero
            cons.append(z3.If(x.term >= 0, z3.And(kr <= x.term, x.term < kr + 1), z3.And(kr - 1 < x.term, x.term <= kr)))
        return Sym(kr, "int")

    def _arith(self, op, a, b):
        def term(v):
            if isinstance(v, Sym):
                return v.term, v.kind
            if isinstance(v, bool):
                raise Unsupported("bool in arithmetic")
            if isinstance(v, int):
                return z3.RealVal(v), "int"
            if isinstance(v, float):
                return z3.RealVal(repr(v)), "real"
            raise Unsupported("arithmetic on " + type(v).__name__)
        (ta, ka), (tb, kb) = term(a), term(b)
        kind = "int" if (ka == "int" and kb == "int") else "real"
        if isinstance(op, ast.Add):
            return Sym(ta + tb, kind)
        if isinstance(op, ast.Sub):
            return Sym(ta - tb, kind)
        if isinstance(op, ast.Mult):
            return Sym(ta * tb, kind)
        if isinstance(op, ast.Div):
            return Sym(ta / tb, "real")
        raise Unsupported("operator " + type(op).__name__)


def _plain_tuple(v):
    return isinstance(v, tuple) and not (v and isinstance(v[0], str) and v[0] in ("cond", "int_of_text", "float_of_text"))


def interpret(fn: ast.FunctionDef, args: Dict[str, Any]):
    """All paths of fn: list of (numeric constraints, text conditions, result)."""
    paths = []
    work = [[]]
    while work:
        dec = work.pop()
        it = Interp(fn, args, dec)
        cons, conds, res = it.run()
        paths.append((cons, conds, res))
        # schedule the untaken alternatives of the decisions made beyond `dec`
        for i in range(len(dec), len(it.taken)):
            work.append(it.taken[:i] + [not it.taken[i]])
        if len(paths) > 64:
            raise Unsupported("too many paths")
    return paths


# ---------------------------------------------------------------------------
# printf model (C99 contract for d and f)

PRINTF = re.compile(r"^%([-+ 0#]*)(\d*)(?:\.(\d+))?([df])$")


def parse_printf(fmt: str):
    m = PRINTF.match(fmt)
    if not m:
        return None
    flags, width, prec, conv = m.groups()
    return dict(flags=flags, width=int(width) if width else 0, prec=(int(prec) if prec is not None else (6 if conv == "f" else None)),
                conv=conv)


def printf_shape(spec, stripped: bool, noplus: bool = False):
    """Regular language containing every rendering of the conversion."""
    flags, width, prec, conv = spec["flags"], spec["width"], spec["prec"], spec["conv"]
    if "+" in flags and noplus and stripped:
        sign = z3.Option(z3.Re("-"))
    elif "+" in flags:
        sign = z3.Union(z3.Re("-"), z3.Re("+"))
    elif " " in flags:
        sign = z3.Union(z3.Re("-"), z3.Re(" "))
    else:
        sign = z3.Option(z3.Re("-"))
    digits = z3.Plus(DIGIT)
    if conv == "d":
        body = digits
    elif prec == 0:
        body = z3.Concat(digits, z3.Re(".")) if "#" in flags else digits
    else:
        body = z3.Concat(digits, z3.Re("."), z3.Loop(DIGIT, prec, prec))
    core = z3.Concat(sign, body)
    if stripped:
        # str.strip() removes blanks on both sides, including a ' ' sign flag
        if " " in flags:
            core = z3.Concat(z3.Option(z3.Re("-")), body)
        return core
    if width:
        pad = z3.Star(z3.Re(" "))
        if "-" in flags:
            return z3.Concat(core, pad)
        if "0" in flags:
            return core        # zero padding extends the digit run: same shape
        return z3.Concat(pad, core)
    return core
