#!/usr/bin/env python3
"""Writes MANIFEST.json from the table below (keeps it schema-valid)."""
import json, os
HERE = os.path.dirname(os.path.abspath(__file__))
props = [json.loads(l) for l in open(os.path.join(HERE, "properties.jsonl"))]

XH = "bounded symbolic execution of the real modules (CrossHair + z3), conditions confirmed over all paths, counterexamples replayed on the unstubbed code"
CLAIMED = {
    "C20": dict(
        text="Bounded symbolic model checking of IndiMessage/IndiMessagePart equality on the real classes: for every message kind, "
             "0..3 (quick) / 0..4 (thorough) children and every single-point perturbation, z3 shows over all string/vocabulary values "
             "within the length bound that == coincides with an independent structural view; no claim outside the bounds.",
        note="Trusted: CrossHair's modelling of str/dict/tuple; the harness DTD table; strings len<=1 (quick) / <=2 (thorough) where two "
             "different symbolic strings are compared.",
        ref="DESIGN.md section 6 C20", technique=XH),
}
CLAIMED["C03"] = dict(
    text="Bounded symbolic model checking of the real to_xml/from_xml pair over a tree-level wire: for every message kind the library "
         "defines, 0..2 (quick) / 0..3 (thorough) children, unbounded symbolic attribute and text strings, all vocabulary members and the "
         "listed optional-attribute patterns, z3 shows on every path that parsing succeeds, yields the same kind and structural view and "
         "re-serialises to the identical tree; also for a foreign spelling (attribute order, indentation).",
    note="Trusted: ET.tostring/expat enter as the tree-wire contract (validated concretely each run); SymText model of str.strip(); "
         "CrossHair's str/dict modelling. Text with surrounding whitespace or carriage return is outside the statement.",
    ref="DESIGN.md section 6 C03", technique=XH)
CLAIMED["C13"] = dict(
    text="Bounded symbolic model checking of the real from_xml on element trees: for every tag (and an unknown one), 0..2/3 children, "
         "every single-point perturbation of the quantifier (attribute missing, constrained field replaced by an unbounded symbolic string, "
         "child of any kind, child text arbitrary/absent) z3 shows that parsing raises or the message is conformant to the DTD table of the harness.",
    note="Trusted: TreeET element API twin; SymText strip() model; number syntax is checked on a pool of 12 spellings here (language "
         "inclusion is the SMT engine's job in C10). One (quick) or two (thorough) simultaneous perturbations.",
    ref="DESIGN.md section 6 C13", technique=XH + "; number syntax: validator language inside the INDI grammar by z3 regex inclusion over the regexes read from the source")
CLAIMED["C04"] = dict(
    text="Bounded symbolic model checking of the real Router: inductive step from every state of the bounded universe (3 devices incl. a "
         "catch-all and same-named twins, 3 clients, 4 names, policies) plus 2/3-step histories through the public API, for every "
         "client-originated kind; the recorded delivery multiset must equal the reference (each accepting non-sender device once, only "
         "getProperties relayed, never to the sender). Real Driver instances are used as devices in extra conditions.",
    note="Trusted: names come from a concrete universe through a symbolic index (dict keys would be realised); sender is a registered client.",
    ref="DESIGN.md section 6 C04", technique=XH)
CLAIMED["C05"] = dict(
    text="Bounded symbolic model checking of the real Router fan-out: arbitrary policy table (symbolic per client and device name) + one "
         "device-originated message of every kind, and 2/3-step histories of enableBLOB/unregister/re-register through the API; delivery to "
         "each client must be exactly what policy[client][device] alone prescribes. The library clients' blob_handshake is checked end to end.",
    note="Trusted: concrete name universe via symbolic index; nameless messages fall under the default policy.",
    ref="DESIGN.md section 6 C05", technique=XH)
CLAIMED["C09"] = dict(
    text="Bounded symbolic model checking of the real switch vector code: arbitrary rule-satisfying pre-state bits + one symbolic operation "
         "(client write of 1-3 switches, value, bool_value, selected_value(s)) for 3 rules x 1..3 (quick) / 1..5 (thorough) switches, plus 2-step "
         "histories from default_on configurations; post-state and every published setSwitchVector must satisfy the rule.",
    note="Trusted: initial configurations satisfy the rule; written values are On/Off.",
    ref="DESIGN.md section 6 C09", technique=XH)
CLAIMED["C02"] = dict(
    text="Bounded symbolic model checking of the real Buffer (StringIO bookkeeping, find/rfind/slices, loop control) against a ground-truth "
         "parse oracle: two messages of 4..5 symbolic characters (any code point, XML facts F1-F6 as preconditions), fillers (none, newline, XML "
         "declaration), every 2-piece (quick) / 3-piece (thorough) partition via a symbolic cut, threshold disabled or symbolic; after every "
         "append+process the delivered list must be exactly the messages whose last character has arrived.",
    note="Trusted: expat enters as the oracle 'a prefix is a message iff it equals one of the sent messages' (F1-F6, stated); tags {a,b} stand for the "
         "real tags; CrossHair's str/StringIO model (one equality bug found and avoided, DESIGN 3.1). Counterexamples are concretised to real "
         "serialised messages and replayed on the real Buffer with real expat.",
    ref="DESIGN.md section 6 C02", technique=XH)
CLAIMED["C11"] = dict(
    text="Safety: the real Buffer on an arbitrary symbolic text (<=4/5 chars + appended piece), arbitrary threshold or none, and an ARBITRARY "
         "table of parser verdicts (so the verdict holds for whatever expat does): terminates, raises nothing, delivers only accepted messages, "
         "never None, retains <= threshold. Liveness with the ground-truth oracle: '<'-free junk around messages neither loses nor delays them; "
         "a truncated element is skipped once the threshold is exceeded (threshold disabled: recorded finding).",
    note="Trusted: F4/F5 on the arbitrary oracle; F1-F6 on the ground-truth oracle; watchdog stubs turn non-termination into a verdict.",
    ref="DESIGN.md section 6 C11", technique=XH)
CLAIMED["C08"] = dict(
    text="(a) codec: the real BLOB code paths of driver, router and client over the tree wire with symbolic payload length (0..8/16, real base64), "
         "unbounded symbolic format string and symbolic client policy, both directions, single-connection clients and the library's two-connection "
         "client; (b) the real Buffer with message length, read size and threshold all symbolic (ground-truth oracle); (c) BLOB-mode buffer on "
         "arbitrary text with an arbitrary parser never hangs nor delivers None.",
    note="Payload contents are carried by the stdlib base64 codec (not repository code) and are concrete fillers; sizes are small with symbolic "
         "order relations standing for the 1024/2048 boundaries; one recorded finding (server-side threshold destroys long fragmented messages).",
    ref="DESIGN.md section 6 C08", technique=XH)
CLAIMED["C15"] = dict(
    text="Bounded symbolic model checking of the real client mirror: pre-state built by real def* messages over a universe of 3x3x3 names "
         "(one of each unknown) in two layouts holding all five vector kinds, then one symbolic message of every def*/set*/delProperty/other "
         "kind (names, state, values symbolic; BLOB payload absent/empty/present); nothing may raise and the public view must equal an independent "
         "reference interpreter's.",
    note="Trusted: names via symbolic index into a concrete universe; parsing/fragmentation are premises (C02/C03); invalid base64 and wrong sizes outside.",
    ref="DESIGN.md section 6 C15", technique=XH)
CLAIMED["C16"] = dict(
    text="Bounded symbolic model checking of the real client event machinery: every event raised for one symbolic message is compared with the "
         "changes between consecutive snapshots of the reference mirror (old/new values), a callback with a fully symbolic filter must see exactly "
         "the reference predicate's selection, removal by id/criteria at a symbolic point silences it, a raising callback starves nobody. "
         "One recorded finding (definition-time events), whose class is carved out and re-checked leniently.",
    note="Trusted: as C15. Coroutine callbacks and the order of events inside one message are outside.",
    ref="DESIGN.md section 6 C16", technique=XH)
XHV = XH + "; asyncio replaced by a pure-Python model loop on a virtual clock (validated against the real loop each run), counterexamples replayed on the real asyncio loop"
CLAIMED["C17"] = dict(
    text="The real waitforevent coroutine (with its inner callback, poll and timeout tasks) runs on a model event loop whose clock is symbolic: "
         "arrival instants of up to 3 events are UNBOUNDED symbolic integers (paths are orderings), match bits, timeout and polling grid symbolic; "
         "z3 shows on every ordering that the wait returns the first match before the timeout at its instant, else the timeout at its instant, "
         "polls exactly on the grid before completion, and leaves no callback.",
    note="Trusted: VLoop's ordering contract (call_soon FIFO, timers by deadline then insertion, Event/Lock semantics), checked against the real loop on a "
         "micro-scenario every run; exact ties event=timeout excluded as in the quantifier.",
    ref="DESIGN.md section 6 C17", technique=XHV)
CLAIMED["C19"] = dict(
    text="The real message_from_device/send/_write coroutines of the TCP server, TCP client and TTY handlers on the model loop with fake streams whose "
         "drain/write/flush completion delays are unbounded symbolic integers (incl. one drain that never completes) and bursts routed in one or in "
         "successive iterations; on every completion order the recorded stream must be the routed messages, whole and in order.",
    note="Trusted: VLoop; the thread pool behind aiofiles enters as 'a submitted call completes after an arbitrary independent delay'.",
    ref="DESIGN.md section 6 C19", technique=XHV)
CLAIMED["C18"] = dict(
    text="The real TCP and TTY connection handlers (handler_func / handle, wait_for_messages, close) on the model loop with fake streams, real "
         "framing and real expat on concrete session bytes; fault kind (6) and injection step are symbolic indices; after quiescence the victim must "
         "be gone from Router.clients, blob_routing and connections, its writer closed, bystanders fully served, a reconnecting peer at defaults.",
    note="Trusted: VLoop; fake streams with the surface the handlers use. Session content is concrete (bytes go through real expat).",
    ref="DESIGN.md section 6 C18", technique=XHV)
CLAIMED["C14"] = dict(
    text="The real event machinery (on / attach_event_handlers / raise_event, Element value setter / set_value, from_new_message) with handler "
         "configurations enumerated as shapes (plain/coroutine Write, Change, Read handlers), entry point client message / set_value / assignment, and "
         "symbolic old/new values, veto and enabled bits; the ordered trace of handler calls and publications must satisfy the contract. Coroutine "
         "handlers run as tasks on the model loop. A second instance of the driver class must not see the events.",
    note="Trusted: VLoop. Read handlers are observers during writes (reading of the statement).",
    ref="DESIGN.md section 6 C14", technique=XHV)
CLAIMED["C07"] = dict(
    text="A 3-level inherited driver with all five vector kinds plus a second device on a real Router: (i) for symbolic driver state and symbolic "
         "request (device x name) the def* messages handed to the router must equal a reference computed from the driver's public attributes; "
         "(ii) every message emitted on requests and on driver-side operations must re-parse through the tree wire to an equal view.",
    note="Trusted: tree wire (C03); numbers from a value list (rendering is C10). State and addressing are varied in separate condition families.",
    ref="DESIGN.md section 6 C07", technique=XH)
CLAIMED["C12"] = dict(
    text="Direct-router variant: hostile-but-well-formed new*Vector messages with symbolic addressing (device x property x element incl. unknown, "
         "empty, other-kind) and values (symbolic text, pools of valid/invalid number, base64 and size spellings, 0..2 children incl. duplicates) "
         "against a 6-vector driver: nothing may escape, only validly named elements with valid values may change, a following request is answered. "
         "Transport variant: 14 catalogue entries at symbolic positions of a session on the real TCP and TTY handlers (model loop, real framing, real "
         "expat): the connection stays registered and open and keeps being served.",
    note="Trusted: VLoop, fake streams; numbers/base64 from pools (C-level conversions); partly applicable messages may be applied or ignored.",
    ref="DESIGN.md section 6 C12", technique=XHV)
CLAIMED["C10"] = dict(
    text="SMT engine: num_to_str, str_to_num and checks.number are translated from the AST of the current tree on every run (concrete, format-only "
         "sub-expressions evaluated by Python; the value a z3 Real in [-1e9,1e9], texts z3 strings/regular languages). Per format (14 printf + 6 "
         "sexagesimal quick; full flag/width/precision grid thorough): Q1 rendering inside the validator's language and inside the INDI grammar "
         "(regex inclusion), Q2 INDI denotation within the resolution (LRA), Q4 every INDI-grammar text accepted and mapped to its denotation on every "
         "path of the parser (regex inclusion + LRA), Q3 by composition, Q5 validator inside the grammar. Every sat model is replayed on the real functions.",
    note="Trusted: IEEE-754 standard model with 1e-6 slack; C99 printf contract for d/f (validated on 1600 concrete renderings each run); Latin-1 digits; "
         "Python int()/float() literal grammars. Constructs outside the translator's subset give INCONCLUSIVE (fail closed).",
    ref="DESIGN.md section 6 C10", technique="AST-to-SMT translation of the real functions, z3 (strings/regex + linear arithmetic), unsat = holds for all values in range, sat models replayed",
    engine="smt")
CLAIMED["C01"] = dict(
    text="Composition check of the real driver, router and client code over the tree wire: a 3-level inherited driver (5 vector kinds, 3 groups) and a "
         "second device; symbolic state of a focus vector, getProperties handshake by a single-connection client, the library's two-connection client "
         "or another driver's snooping client, then one symbolic operation (8 kinds, driver side and client write) with symbolic arguments; the "
         "client's public view must equal the view computed from the driver's public attributes. Byte-level fragmentation and XML text enter as the "
         "separately checked premises C02 and C03.",
    note="Trusted: tree wire (C03), framing (C02); one operation per condition after an arbitrary (symbolic) focus state -- an inductive step, not long histories.",
    ref="DESIGN.md section 6 C01", technique=XH)
CLAIMED["C06"] = dict(
    text="The real client write path (Element.value, Vector.submit, to_new_message) -> tree wire -> Router -> Driver.from_new_message -> setters and "
         "back into the client mirror: symbolic non-empty element subset and values (text, switch bits, number spellings incl. sexagesimal, BLOB "
         "length) on five target vectors with a same-named vector on a second device; a snapshot of every element of every device must differ exactly "
         "on the targeted elements, by the value sent; pending values cleared; mirror updated.",
    note="Trusted: tree wire (C03); switch-rule side effects are C09's subject; numbers compared numerically.",
    ref="DESIGN.md section 6 C06", technique=XH)
NA_DEFAULT = "check not built yet in this round (no verdict claimed); see DESIGN.md section 6 for the plan"

checks, na = [], []
for p in props:
    pid = p["id"]
    if pid in CLAIMED:
        c = CLAIMED[pid]
        checks.append({
            "property_id": pid,
            "quick_cmd": f"./check.sh {pid} quick",
            "thorough_cmd": f"./check.sh {pid} thorough",
            "evidence_file": f"/verif/evidence/{pid}.json",
            "replay_cmd_template": f"./check.sh {pid} --replay {{path}}",
            "engine": c.get("engine", "xh"),
            "level_claimed": {"category": "model_checking", "text": c["text"], "design_ref": c["ref"]},
            "level_note": c["note"],
            "technique": c["technique"],
        })
    else:
        na.append({"property_id": pid, "reason": NA.get(pid, NA_DEFAULT) if (NA := globals().get("NA_REASONS", {})) is not None else NA_DEFAULT})

m = {
    "version": 1,
    "setup_cmd": "./bootstrap.sh",
    "hooks": {"guard": "INDIPY_VERIF", "enable": "none needed: harnesses rebind module attributes (ET, asyncio, base64) from their own process; /repo is imported as it stands",
              "baseline_off_cmd": "cd /repo && /venv/bin/python -m pytest -ra -q -p no:cacheprovider --timeout=900 --continue-on-collection-errors",
              "source_commits": [], "add_only": True},
    "engines": [
        {"name": "smt", "path": "/verif/smt", "serves_properties": ["C10", "C13"],
         "kind_free_text": "AST -> SMT-LIB translation (z3 Python API) of the number kernels; regex inclusion and LRA queries; replay on the real functions"},
        {"name": "xh", "path": "/verif/vf", "serves_properties": sorted(k for k in CLAIMED if k != "C10"),
         "kind_free_text": "CrossHair 0.0.110 symbolic execution of /repo's modules with z3; one OS process per condition; reach twins; concrete replay"},
    ],
    "checks": checks,
    "not_applicable": na,
    "notes": "Solver-based checking of the real code; every verdict is bounded, bounds are in each evidence file. Exit 2/3 = INCONCLUSIVE (never success).",
}
json.dump(m, open(os.path.join(HERE, "MANIFEST.json"), "w"), indent=1)
print("claimed", sorted(CLAIMED), "not_applicable", len(na))
