"""vf -- solver-based checking machinery for indipy (see /verif/DESIGN.md)."""
