"""Runs ONE condition under CrossHair in this process and writes a JSON result.

usage: python -m vf.worker <prop> <cond-name> <confirm|reach> <tier> <out.json>
"""
from __future__ import annotations

import ast
import collections
import json
import logging
import os
import sys
import time
import traceback


def _setup_path():
    here = os.path.dirname(os.path.dirname(os.path.abspath(__file__)))
    if here not in sys.path:
        sys.path.insert(0, here)
    src = os.environ.get("INDIPY_SRC", "/repo")
    # the tree under analysis goes first so that it wins over the develop-install
    sys.path.insert(0, src)


_setup_path()

SOLVER = {"queries": 0, "solver_s": 0.0, "sat": 0, "unsat": 0, "unknown": 0}


def _instrument_z3():
    import z3
    orig = z3.Solver.check

    def check(self, *a, **k):
        t = time.perf_counter()
        r = orig(self, *a, **k)
        SOLVER["solver_s"] += time.perf_counter() - t
        SOLVER["queries"] += 1
        s = str(r)
        if s in SOLVER:
            SOLVER[s] += 1
        return r

    z3.Solver.check = check


def parse_counterexample(msg: str):
    """'false when calling f(a=1, s="x") (which returns ..)' -> {'a': 1, 's': 'x'}"""
    key = "when calling "
    i = msg.find(key)
    if i < 0:
        return None
    rest = msg[i + len(key):]
    # find the balanced call expression
    depth = 0
    end = None
    in_str = None
    esc = False
    for j, ch in enumerate(rest):
        if in_str:
            if esc:
                esc = False
            elif ch == "\\":
                esc = True
            elif ch == in_str:
                in_str = None
            continue
        if ch in "'\"":
            in_str = ch
        elif ch == "(":
            depth += 1
        elif ch == ")":
            depth -= 1
            if depth == 0:
                end = j + 1
                break
    if end is None:
        return None
    try:
        call = ast.parse(rest[:end], mode="eval").body
        out = {}
        for kw in call.keywords:
            out[kw.arg] = ast.literal_eval(kw.value)
        for n, a in enumerate(call.args):
            out[f"_pos{n}"] = ast.literal_eval(a)
        return out
    except Exception:
        return None


def load_condition(prop: str, name: str, tier: str):
    import importlib
    mod = importlib.import_module(f"props.{prop.lower()}")
    for c in mod.conditions(tier):
        if c.name == name:
            return mod, c
    raise SystemExit(f"no condition {name} in {prop}")


def main(argv):
    prop, name, mode, tier, out = argv
    logging.disable(logging.CRITICAL)
    _instrument_z3()
    from vf.cond import MODE
    MODE.reach = (mode == "reach")
    mod, cond = load_condition(prop, name, tier)

    from crosshair.core_and_libs import analyze_function, run_checkables, MessageType
    from crosshair.options import AnalysisOptionSet

    timeout = float(os.environ.get("VF_TIMEOUT_SCALE", "1")) * cond.timeout
    if mode == "reach":
        timeout = min(timeout, 60.0)
    stats = collections.Counter()
    opts = AnalysisOptionSet(
        per_condition_timeout=timeout,
        per_path_timeout=cond.per_path_timeout,
        max_uninteresting_iterations=sys.maxsize,
        report_all=True,
        stats=stats,
    )
    t0 = time.perf_counter()
    c0 = time.process_time()
    res = {"prop": prop, "cond": name, "mode": mode, "tier": tier}
    try:
        checkables = analyze_function(cond.fn, opts)
        if not checkables:
            res["status"] = "ERROR"
            res["detail"] = "CrossHair found no contract on the condition"
        else:
            msgs = run_checkables(checkables)
            states = [m.state.name for m in msgs]
            res["messages"] = [
                {"state": m.state.name, "message": m.message[:2000]} for m in msgs
            ]
            if any("harness:" in m.message for m in msgs):
                res["status"] = "ERROR"
                res["detail"] = "; ".join(m.message for m in msgs)[:2000]
            elif any(s in ("POST_FAIL", "POST_ERR", "EXEC_ERR") for s in states):
                m = [m for m in msgs if m.state.name in ("POST_FAIL", "POST_ERR", "EXEC_ERR")][0]
                res["status"] = "COUNTEREXAMPLE"
                res["kind"] = m.state.name
                res["message"] = m.message[:4000]
                res["args"] = parse_counterexample(m.message)
            elif states and all(s == "CONFIRMED" for s in states):
                res["status"] = "CONFIRMED"
            elif any(s == "PRE_UNSAT" for s in states):
                res["status"] = "PRE_UNSAT"
            elif any(s in ("SYNTAX_ERR", "IMPORT_ERR") for s in states):
                res["status"] = "ERROR"
                res["detail"] = "; ".join(m.message for m in msgs)[:2000]
            else:
                res["status"] = "NOT_CONFIRMED"
    except BaseException as e:  # noqa -- report, never hide
        res["status"] = "ERROR"
        res["detail"] = "".join(traceback.format_exception(type(e), e, e.__traceback__))[-3000:]
    res["paths"] = int(stats.get("num_paths", 0))
    res["wall_s"] = round(time.perf_counter() - t0, 3)
    res["cpu_s"] = round(time.process_time() - c0, 3)
    res["smt_queries"] = SOLVER["queries"]
    res["solver_s"] = round(SOLVER["solver_s"], 3)
    res["timeout_s"] = timeout
    with open(out, "w") as f:
        json.dump(res, f)


if __name__ == "__main__":
    main(sys.argv[1:])
