"""Condition objects and the small runtime every harness uses.

A *condition* is a Python function with typed scalar parameters and the
docstring ``post: _``.  CrossHair executes it symbolically on the repository's
real modules; "Confirmed over all paths" is the exhaustiveness statement.

Bounds are written as early ``return True`` guards through :func:`assume`,
the property assertion is returned through :func:`verdict`.  In REACH mode
(:data:`MODE.reach`) ``verdict`` always answers ``False`` so that the twin of a
condition must come back *violated* -- that is the vacuity guard.
"""
from __future__ import annotations

import dataclasses
import json
import os
from typing import Any, Callable, Dict, List, Optional, Sequence


class _Mode:
    reach = False          # reachability twin: verdict() is always False
    real = False           # concrete replay: harnesses use the real C pieces
    trace: Optional[list] = None   # replay: harnesses may append observations


MODE = _Mode()


class NoProgress(Exception):
    """Raised by a watchdog stub when the code under test keeps looping."""


def verdict(ok, why: str = "") -> bool:
    """The property assertion of a condition."""
    if MODE.reach:
        return False
    if MODE.trace is not None and not ok:
        MODE.trace.append(("violated", why))
    if not ok and os.environ.get("VF_DEBUG"):
        import sys
        print("VF_DEBUG violated:", why, file=sys.stderr)
    return bool(ok)


def note(*a):
    if MODE.trace is not None:
        MODE.trace.append(a)


@dataclasses.dataclass
class Condition:
    name: str
    fn: Callable[..., bool]
    # seconds of CPU for the confirm pass (a timeout is INCONCLUSIVE)
    timeout: float = 120.0
    per_path_timeout: float = 30.0
    # what this condition symbolises, for the evidence file
    about: str = ""
    # repository functions executed symbolically
    encodes: Sequence[str] = ()
    bounds: str = ""
    # classify a reproduced counterexample into a known-finding signature
    signature: Optional[Callable[[Dict[str, Any]], str]] = None
    # replay(args) -> (reproduced, detail); default: run fn concretely, real mode
    replay: Optional[Callable[[Dict[str, Any]], Any]] = None
    # skip the reach twin (only for conditions whose reachability is shown by
    # another condition of the same family; says which)
    reach_by: Optional[str] = None
    # tiers in which the condition runs
    tiers: Sequence[str] = ("quick", "thorough")
    # a hunt pass: can only produce violations, never contributes to HOLDS
    hunt: bool = False


# ---------------------------------------------------------------------------
# known findings (read-only at run time)

_KF_PATH = os.path.join(os.path.dirname(os.path.dirname(os.path.abspath(__file__))),
                        "known_findings.json")
_kf_cache = None


def known_findings() -> List[dict]:
    global _kf_cache
    if _kf_cache is None:
        try:
            with open(_KF_PATH) as f:
                _kf_cache = json.load(f)["findings"]
        except FileNotFoundError:
            _kf_cache = []
    return _kf_cache


def kf_open(signature: str) -> bool:
    """True iff *signature* is listed as an open (recorded, unrepaired) finding.

    Harnesses use it to carve the listed failing class out of a condition so
    that the rest of the condition is still decided; the carved-out class is
    re-examined by a separate condition that prints the KNOWN-FINDING line.
    """
    return any(k["signature"] == signature and k.get("status") == "open"
               for k in known_findings())
