"""Decides one property: python -m vf.run <ID> quick|thorough   (see DESIGN 8)

exit 0  HOLDS-WITHIN-BOUNDS (possibly with KNOWN-FINDING lines)
exit 1  VIOLATION property=<id> replay=<path>
exit 2  INCONCLUSIVE (timeout / unknown / vacuous / harness error)
exit 3  INCONCLUSIVE: a counterexample did not reproduce on the real code
"""
from __future__ import annotations

import concurrent.futures as cf
import hashlib
import importlib
import inspect
import json
import os
import random
import subprocess
import sys
import tempfile
import time

from vf import worker  # noqa  (sets sys.path: /verif and the tree under analysis)
from vf.cond import known_findings

VERIF = os.path.dirname(os.path.dirname(os.path.abspath(__file__)))
# runs against a scratch tree (INDIPY_SRC, used for seeded changes) never touch the committed evidence
EVIDENCE_DIR = os.environ.get("VF_EVIDENCE_DIR") or ("evidence" if os.environ.get("INDIPY_SRC", "/repo") == "/repo" else os.path.join("scratch", "evidence-alt"))
PY = sys.executable


def _positional_to_named(cond, args):
    if not args:
        return args
    if not any(k.startswith("_pos") for k in args):
        return args
    names = list(inspect.signature(cond.fn).parameters)
    out = {}
    for k, v in args.items():
        if k.startswith("_pos"):
            out[names[int(k[4:])]] = v
        else:
            out[k] = v
    return out


def run_worker(prop, cond, mode, tier, tmp):
    out = os.path.join(tmp, hashlib.md5(f"{cond.name}|{mode}".encode()).hexdigest() + ".json")
    scale = float(os.environ.get("VF_TIMEOUT_SCALE", "1"))
    hard = (min(cond.timeout, 60) if mode == "reach" else cond.timeout) * scale * 3 + 120
    cmd = ["timeout", "-k", "5", str(int(hard)), PY, "-m", "vf.worker", prop, cond.name, mode, tier, out]
    t0 = time.perf_counter()
    p = subprocess.run(cmd, cwd=VERIF, stdout=subprocess.PIPE, stderr=subprocess.PIPE, text=True)
    if os.path.exists(out):
        with open(out) as f:
            r = json.load(f)
    else:
        r = {"prop": prop, "cond": cond.name, "mode": mode, "status": "ERROR",
             "detail": f"worker exit {p.returncode} (124 = hard wall-clock timeout {int(hard)} s): "
                       + (p.stderr or "")[-1500:], "paths": 0, "smt_queries": 0, "solver_s": 0.0}
    r["wall_s"] = round(time.perf_counter() - t0, 3)
    if r.get("args"):
        r["args"] = _positional_to_named(cond, r["args"])
    return r


def run_replay(prop, cond, tier, args, tmp):
    af = os.path.join(tmp, "args-" + hashlib.md5(cond.name.encode()).hexdigest() + ".json")
    of = af.replace("args-", "replay-")
    with open(af, "w") as f:
        json.dump(args, f)
    p = subprocess.run(["timeout", "-k", "5", "300", PY, "-m", "vf.replay", prop, cond.name, tier, af, of],
                       cwd=VERIF, stdout=subprocess.PIPE, stderr=subprocess.PIPE, text=True)
    if not os.path.exists(of):
        return {"reproduced": None, "detail": f"replay crashed (exit {p.returncode}): " + (p.stderr or "")[-1500:],
                "args": args, "cond": cond.name, "prop": prop, "signature": None}
    with open(of) as f:
        return json.load(f)


def replay_file(path):
    """check.sh <id> --replay <file>: re-run a stored counterexample."""
    with open(path) as f:
        rec = json.load(f)
    if "record" in rec or "extra" in rec:
        # counterexamples of the SMT engine (C10, C13 number syntax): concrete (fmt, n) / (fmt, text) / text
        from props import c10
        out = c10.replay_record(rec)
        print(json.dumps(out, indent=1, default=repr))
        return 1 if out.get("reproduced") else 0
    prop, name, tier, args = rec["prop"], rec["cond"], rec.get("tier", "quick"), rec["args"]
    mod, cond = worker.load_condition(prop, name, tier)
    with tempfile.TemporaryDirectory(prefix="vf-", dir=os.path.join(VERIF, "scratch")) as tmp:
        r = run_replay(prop, cond, tier, args, tmp)
    print(json.dumps(r, indent=1, default=repr))
    return 1 if r.get("reproduced") else 0


def main(argv):
    prop = argv[0].upper()
    if len(argv) >= 3 and argv[1] == "--replay":
        return replay_file(argv[2])
    tier = argv[1] if len(argv) > 1 else os.environ.get("VERIF_TIER", "quick")
    seed = int(os.environ.get("VERIF_SEED", "0") or 0)
    only = os.environ.get("VF_ONLY")  # substring filter, for development only
    os.makedirs(os.path.join(VERIF, "scratch"), exist_ok=True)
    os.makedirs(os.path.join(VERIF, EVIDENCE_DIR), exist_ok=True)
    os.makedirs(os.path.join(VERIF, "replays"), exist_ok=True)
    t0 = time.perf_counter()
    mod = importlib.import_module(f"props.{prop.lower()}")
    if hasattr(mod, "main"):
        # properties decided by the SMT engine have their own driver
        return mod.main(tier, seed)
    conds = mod.conditions(tier)
    if only:
        conds = [c for c in conds if only in c.name]
    problems = list(mod.preflight()) if hasattr(mod, "preflight") else []
    validations = []
    if hasattr(mod, "validate_stubs") and not problems:
        # concrete validation of every stub contract against the real thing
        try:
            validations = list(mod.validate_stubs())
            for v in validations:
                if not v.get("ok"):
                    problems.append("stub validation failed: " + v.get("what", "?") + ": " + str(v.get("detail"))[:300])
        except Exception as e:
            problems.append(f"stub validation crashed: {e!r}")

    jobs = []
    for c in conds:
        jobs.append((c, "confirm"))
        if not c.hunt and c.reach_by is None:
            jobs.append((c, "reach"))
    random.Random(seed).shuffle(jobs)
    # longest first keeps the tail short
    jobs.sort(key=lambda j: -(j[0].timeout if j[1] == "confirm" else 1))
    results = {}
    nworkers = int(os.environ.get("VF_JOBS", str(min(16, os.cpu_count() or 1))))
    with tempfile.TemporaryDirectory(prefix="vf-", dir=os.path.join(VERIF, "scratch")) as tmp:
        if not problems:
            with cf.ThreadPoolExecutor(max_workers=nworkers) as ex:
                futs = {ex.submit(run_worker, prop, c, mode, tier, tmp): (c, mode) for c, mode in jobs}
                for fu in cf.as_completed(futs):
                    c, mode = futs[fu]
                    results[(c.name, mode)] = fu.result()
                    if os.environ.get("VF_VERBOSE"):
                        r = results[(c.name, mode)]
                        print(f"  [{mode}] {c.name}: {r['status']} paths={r.get('paths')} {r.get('wall_s')}s", flush=True)

        # ------------------------------------------------------------------
        violations, known_lines, inconclusive, nonrepro = [], [], [], []
        cond_rows, samples = [], []
        replays_done = 0
        open_sigs = {k["signature"]: k for k in known_findings() if k.get("status") == "open"}
        seen_known = set()
        for c in conds:
            r = results.get((c.name, "confirm"))
            if r is None:
                continue
            row = {"name": c.name, "status": r["status"], "paths": r.get("paths", 0),
                   "smt_queries": r.get("smt_queries", 0), "solver_s": r.get("solver_s", 0.0),
                   "wall_s": r.get("wall_s"), "bounds": c.bounds, "hunt": c.hunt}
            rr = results.get((c.name, "reach"))
            if rr is not None:
                row["reach"] = rr["status"]
                row["paths"] += rr.get("paths", 0)
                row["smt_queries"] += rr.get("smt_queries", 0)
                row["solver_s"] = round(row["solver_s"] + rr.get("solver_s", 0.0), 3)
                if rr["status"] == "COUNTEREXAMPLE" and rr.get("args") and len(samples) < 12:
                    used = {k: v for k, v in rr["args"].items() if v not in ("", 0, False)}
                    samples.append({"condition": c.name, "about": c.about, "reach_witness": used})
            if r["status"] == "COUNTEREXAMPLE":
                rep = run_replay(prop, c, tier, r.get("args"), tmp)
                replays_done += 1
                rep["crosshair_message"] = r.get("message", "")[:1500]
                h = hashlib.md5(json.dumps([c.name, r.get("args")], sort_keys=True, default=repr).encode()).hexdigest()[:10]
                if rep.get("reproduced"):
                    sig = rep.get("signature") or f"{prop}:{c.name}"
                    row["verdict"] = "violated"
                    row["signature"] = sig
                    if sig in open_sigs:
                        if sig not in seen_known:
                            seen_known.add(sig)
                            known_lines.append(f"KNOWN-FINDING: property={prop} {sig}: {open_sigs[sig]['what']}")
                        row["verdict"] = "known-finding"
                    else:
                        path = os.path.join(VERIF, "replays", f"{prop}-{h}.json")
                        with open(path, "w") as f:
                            json.dump(rep, f, indent=1, default=repr)
                        violations.append((c.name, sig, path))
                    samples.append({"condition": c.name, "counterexample": {k: v for k, v in (r.get("args") or {}).items() if v not in ("", 0, False)},
                                    "signature": sig})
                else:
                    row["verdict"] = "counterexample-not-reproduced"
                    nonrepro.append((c.name, rep.get("detail")))
            elif r["status"] == "CONFIRMED":
                if c.hunt:
                    row["verdict"] = "hunt: nothing found"
                elif rr is not None and rr["status"] != "COUNTEREXAMPLE":
                    row["verdict"] = "vacuous-or-unreached"
                    inconclusive.append((c.name, f"reach twin came back {rr['status']}: {rr.get('detail', '')[:300]}"))
                else:
                    row["verdict"] = "confirmed-over-all-paths"
            else:
                if c.hunt:
                    row["verdict"] = "hunt: nothing found"
                else:
                    row["verdict"] = "inconclusive"
                    inconclusive.append((c.name, f"{r['status']}: {r.get('detail', '')[:600]}"))
            cond_rows.append(row)

    for pmsg in problems:
        inconclusive.append(("preflight", pmsg))
    extra_rows = []
    if hasattr(mod, "extra_checks") and not only:
        # checks decided by the SMT engine next to the CrossHair conditions
        for x in mod.extra_checks():
            extra_rows.append(x)
            if x["status"] == "violated":
                path = os.path.join(VERIF, "replays", f"{prop}-{hashlib.md5(json.dumps(x, sort_keys=True, default=repr).encode()).hexdigest()[:10]}.json")
                with open(path, "w") as f:
                    json.dump(dict(prop=prop, extra=x, reproduced=True), f, indent=1, default=repr)
                if x.get("signature") in open_sigs:
                    known_lines.append(f"KNOWN-FINDING: property={prop} {x['signature']}: {open_sigs[x['signature']]['what']}")
                else:
                    violations.append((x["name"], x.get("signature", x["name"]), path))
            elif x["status"] != "holds":
                inconclusive.append((x["name"], x.get("detail", "")))

    decided = [r for r in cond_rows if not r["hunt"]]
    confirmed = [r for r in decided if r.get("verdict") == "confirmed-over-all-paths"]
    paths = sum(r["paths"] for r in cond_rows)
    queries = sum(r["smt_queries"] for r in cond_rows) + sum(x.get("queries", 0) for x in extra_rows)
    solver_s = round(sum(r["solver_s"] for r in cond_rows), 3)
    if violations:
        verdict_s, code = "VIOLATION", 1
    elif nonrepro:
        verdict_s, code = "INCONCLUSIVE", 3
    elif inconclusive:
        verdict_s, code = "INCONCLUSIVE", 2
    else:
        verdict_s, code = "HOLDS-WITHIN-BOUNDS", 0

    encoded = sorted({e for c in conds for e in c.encodes})
    assumptions = list(getattr(mod, "ASSUMPTIONS", []))
    ev = {
        "property_id": prop, "tier": tier, "seed": seed, "level": "model_checking",
        "coverage": {
            "states": max(paths, 0), "transitions": max(queries, 0),
            "traces_validated_against_impl": replays_done + len(validations),
            "samples": samples[:16] or [{"note": "no witness recorded"}],
            "explanation": "bounded symbolic execution (CrossHair+z3) of the repository's own functions; "
                           "states = execution paths explored, transitions = SMT queries discharged",
            "verdict": verdict_s,
            "functions_encoded": encoded,
            "engine": "crosshair-tool 0.0.110 + z3 (per-path symbolic execution)",
            "conditions": len(decided), "confirmed_over_all_paths": len(confirmed),
            "hunt_conditions": len(cond_rows) - len(decided),
            "paths": paths, "smt_queries": queries, "solver_s": solver_s,
            "exhaustive": bool(decided) and len(confirmed) == len(decided),
            "bounds": getattr(mod, "BOUNDS", {}).get(tier, ""),
            "outside_the_claim": getattr(mod, "OUTSIDE", ""),
            "stub_validations": validations,
            "known_findings_reported": sorted(seen_known),
            "inconclusive": [list(x) for x in inconclusive][:20],
            "not_reproduced": [[n, str(dd)[:500]] for n, dd in nonrepro][:10],
            "condition_table": cond_rows,
            "smt_checks": extra_rows,
        },
        "assumptions": assumptions,
        "wall_s": round(time.perf_counter() - t0, 3),
        "violations": len(violations),
    }
    if not only:
        with open(os.path.join(VERIF, EVIDENCE_DIR, f"{prop}.json"), "w") as f:
            json.dump(ev, f, indent=1, default=repr)
    else:
        print(json.dumps({k: v for k, v in ev["coverage"].items() if k in ("inconclusive", "not_reproduced")}, indent=1, default=repr))

    for line in known_lines:
        print(line)
    for name, sig, path in violations:
        print(f"  violated condition {name}: {sig}")
        print(f"VIOLATION property={prop} replay={path}")
    for name, why in inconclusive[:20]:
        print(f"INCONCLUSIVE {prop} {name}: {why}")
    for name, why in nonrepro[:10]:
        print(f"INCONCLUSIVE {prop} {name}: counterexample did not reproduce on the real code: {str(why)[:400]}")
    print(f"{prop} {tier}: {verdict_s}  conditions={len(decided)} confirmed={len(confirmed)} "
          f"paths={paths} smt_queries={queries} solver_s={solver_s} wall_s={ev['wall_s']}")
    return code


if __name__ == "__main__":
    sys.exit(main(sys.argv[1:]))
