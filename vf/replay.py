"""Concrete replay of a counterexample against the real, unstubbed code.

usage: python -m vf.replay <prop> <cond-name> <tier> <args.json> <out.json>
"""
from __future__ import annotations

import json
import logging
import sys

from vf import worker  # sets sys.path  # noqa


def main(argv):
    prop, name, tier, argsfile, out = argv
    logging.disable(logging.CRITICAL)
    with open(argsfile) as f:
        args = json.load(f)
    mod, cond = worker.load_condition(prop, name, tier)
    from props.common import run_replay_default
    if cond.replay is not None:
        reproduced, detail = cond.replay(args)
    else:
        reproduced, detail = run_replay_default(cond, args)
    sig = None
    if hasattr(mod, "signature"):
        try:
            sig = mod.signature(name, args, detail)
        except Exception as e:
            sig = None
    with open(out, "w") as f:
        json.dump({"prop": prop, "cond": name, "tier": tier, "args": args,
                   "reproduced": bool(reproduced), "detail": detail, "signature": sig}, f,
                  indent=1, default=repr)


if __name__ == "__main__":
    main(sys.argv[1:])
