"""Parse-oracle stubs for the framing buffer (DESIGN 4.2).

`indi.transport.buffer` asks expat exactly two questions about a prefix of its
buffer: ET.fromstring(prefix) (well-formed document?) and
IndiMessage.from_string(prefix) (a protocol message?).  Both names are rebound
in the buffer module to one of the oracles below; everything else in Buffer
(StringIO bookkeeping, find/rfind/slicing, loop control) runs unchanged.
"""
from __future__ import annotations

import os
from typing import List, Optional

from props.common import HarnessError, NoProgress, MODE


def str_eq(a, b) -> bool:
    """Character-wise equality.  CrossHair 0.0.110 answers `x == m` wrongly
    (False for equal strings, and asymmetrically: `m == x` is right) when x is a
    slice of a StringIO value that was itself written from a whole-string slice
    -- found as a counterexample that did not reproduce, reduced to a 20-line
    probe (scratch probe p22, DESIGN 3.1).  Integer indexing is right in every
    probe, so the oracles compare that way."""
    mode = os.environ.get("VF_STREQ", "rev")
    if mode == "chars":
        n = len(a)
        if n != len(b):
            return False
        for i in range(n):
            if a[i] != b[i]:
                return False
        return True
    if mode == "rev":
        return b == a
    if mode == "plus":
        return (a + "") == (b + "")
    if mode == "sw":
        return len(a) == len(b) and a.startswith(b)
    raise AssertionError(mode)


class Token:
    """What the oracle hands back as 'the parsed message'."""

    def __init__(self, index, text=None):
        self.index = index
        self.text = text

    def __repr__(self):
        return f"<msg {self.index}>"


class _ParseError(Exception):
    pass


class Watchdog:
    def __init__(self, limit):
        self.limit = limit
        self.calls = 0

    def tick(self):
        self.calls += 1
        if self.calls > self.limit:
            raise NoProgress("the buffer keeps asking the parser without consuming input")


class GroundTruthOracle:
    """accept(prefix)  iff  prefix equals one of the messages of the stream."""

    def __init__(self, messages: List[str], limit=200):
        self.messages = messages
        self.wd = Watchdog(limit)
        self.ParseError = _ParseError

    def _which(self, text) -> Optional[int]:
        self.wd.tick()
        # XML allows white space before the root element (but nothing else: a
        # declaration must be the very first thing): leading blanks of the
        # queried prefix are skipped.  (Found by a seeded change whose symbolic
        # counterexample did not reproduce on real expat.)
        # ... and an XML declaration (abstractly "<?x?>") is allowed as the very
        # first thing of a document: declaration + blanks + element is the
        # element's document (second seeded change whose counterexample did not
        # reproduce on real expat).
        k = 0
        n = len(text)
        if n >= 5 and text[0] == "<" and text[1] == "?" and text[2] == "x" and text[3] == "?" and text[4] == ">":
            k = 5
        while k < n and (text[k] == "\n" or text[k] == " " or text[k] == "\t" or text[k] == "\r"):
            k += 1
        if k:
            text = text[k:]
        for i, m in enumerate(self.messages):
            if str_eq(text, m):
                return i
        return None

    # --- the ET face
    def fromstring(self, text):
        if self._which(text) is None:
            raise _ParseError("not well-formed")
        return object()

    # --- the IndiMessage face
    def from_string(self, text):
        i = self._which(text)
        if i is None:
            raise Exception("Invalid message")
        return Token(i)


class ArbitraryOracle:
    """accept(prefix) is decided by symbolic bits indexed by the prefix length
    (any behaviour of expat on any text is an instance).  Facts imposed: nothing
    shorter than 4 characters is a document (F5), a document does not end in
    '>>' (F4)."""

    def __init__(self, wellformed_bits, message_bits, limit=200):
        self.wf = wellformed_bits
        self.msg = message_bits
        self.wd = Watchdog(limit)
        self.ParseError = _ParseError
        self.accepted: List[Token] = []

    def _wf(self, text):
        self.wd.tick()
        n = len(text)
        if n < 4 or n >= len(self.wf):
            return False
        if text[n - 2] == ">":
            return False
        return self.wf[n]

    def fromstring(self, text):
        if not self._wf(text):
            raise _ParseError("not well-formed")
        return object()

    def from_string(self, text):
        n = len(text)
        if not self._wf(text) or not self.msg[n]:
            raise Exception("Invalid message")
        t = Token(n)
        self.accepted.append(t)
        return t


class TagSource:
    """Stands in for IndiMessage in the buffer module: the tag list the Buffer
    constructor reads, and the from_string face of the oracle."""

    def __init__(self, tags, oracle):
        self._tags = tags
        self._oracle = oracle

    def all_message_classes(self):
        class _C:
            def __init__(self, t):
                self.t = t

            def tag_name(self):
                return self.t
        return [_C(t) for t in self._tags]

    def from_string(self, text):
        return self._oracle.from_string(text)


def make_buffer(oracle, tags, threshold):
    """A real Buffer whose two questions to expat go to `oracle`."""
    import indi.transport.buffer as B
    B.ET = oracle
    B.IndiMessage = TagSource(tags, oracle)
    buf = B.Buffer()
    buf.max_buffer_size_before_frontal_cleanup = threshold
    return buf


def restore_buffer_module():
    import importlib
    import xml.etree.ElementTree as RET
    import indi.transport.buffer as B
    from indi.message import IndiMessage
    B.ET = RET
    B.IndiMessage = IndiMessage


def real_tags():
    import indi.message  # noqa
    from indi.message.base import IndiMessage
    return [m.tag_name() for m in IndiMessage.all_message_classes()]


# ---------------------------------------------------------------------------
# Concretisation of an oracle-level scenario to a real stream (replay only)

REAL_MSGS = {
    "a": '<getProperties version="1.7" device="CAMERA"/>',
    "b": '<enableBLOB device="CAMERA">Also</enableBLOB>',
}
REAL_FILLERS = {"": "", "\n": "\n", "<?x?>\n": '<?xml version="1.0"?>\n', "\n<?x?>\n": '\n<?xml version="1.0"?>\n'}


def real_part(abstract: str) -> str:
    """The real text standing for an abstract stream part."""
    if abstract in REAL_FILLERS:
        return REAL_FILLERS[abstract]
    if len(abstract) >= 2 and abstract[0] == "<" and abstract[1] in REAL_MSGS and abstract.endswith(">"):
        return REAL_MSGS[abstract[1]]
    return abstract   # junk stays as it is


def map_offset(parts_abs, parts_real, off):
    """Maps an offset into the abstract stream to the real stream, keeping its
    position relative to the part it falls into (start, interior, last
    character, end)."""
    a0 = r0 = 0
    for pa, pr in zip(parts_abs, parts_real):
        la, lr = len(pa), len(pr)
        if off <= a0 + la:
            k = off - a0
            if k == 0:
                return r0
            if k == la:
                return r0 + lr
            if k == la - 1:
                return r0 + lr - 1
            return r0 + min(k, lr - 2)
        a0 += la
        r0 += lr
    return r0


def real_replay_stream(parts_abs, cuts_abs, threshold_abs, claim_lengths_abs, truncate=None):
    """Runs the real Buffer (real expat) on the concretised scenario.  Returns
    (delivered_texts, hang, error, stream_real, cuts_real, threshold_real)."""
    import signal
    restore_buffer_module()
    import indi.transport.buffer as B
    parts_real = [real_part(p) for p in parts_abs]
    if truncate is not None:
        i, k = truncate
        parts_real[i] = parts_real[i][:max(1, min(len(parts_real[i]) - 1, k if k < 3 else len(parts_real[i]) - 2))]
    stream = "".join(parts_real)
    cuts = sorted(map_offset(parts_abs, parts_real, c) for c in cuts_abs)
    if threshold_abs is None:
        T = None
    else:
        # keep the order relation between the threshold and the message lengths
        la = max(claim_lengths_abs) if claim_lengths_abs else 0
        lr = max(len(real_part(p)) for p in parts_abs if p[:1] == "<" and p[1:2] in REAL_MSGS) if claim_lengths_abs else 0
        T = lr + (threshold_abs - la) if threshold_abs >= la else max(0, threshold_abs)
    buf = B.Buffer()
    buf.max_buffer_size_before_frontal_cleanup = T
    got = []

    class _Hang(Exception):
        pass

    def on_alarm(*a):
        raise _Hang()
    signal.signal(signal.SIGALRM, on_alarm)
    signal.alarm(10)
    log = []
    try:
        pos = 0
        for b in cuts + [len(stream)]:
            buf.append(stream[pos:b])
            pos = b
            buf.process(got.append)
            log.append((pos, len(got)))
        signal.alarm(0)
        return got, False, None, stream, cuts, T, log, buf
    except _Hang:
        return got, True, None, stream, cuts, T, log, buf
    except Exception as e:
        signal.alarm(0)
        return got, False, repr(e), stream, cuts, T, log, buf


def validate_xml_facts():
    """F1-F6 of DESIGN 4.2 against real expat, on every message kind serialised
    by the library and on all short strings over the markup alphabet."""
    import itertools
    import xml.etree.ElementTree as RET
    from props.routerlib import make_message
    from props.common import MSG_SPECS

    def wf(t):
        try:
            RET.fromstring(t)
            return True
        except RET.ParseError:
            return False
    msgs = [RET.tostring(make_message(k, "DEV").to_xml()).decode() for k in MSG_SPECS]
    bad = []
    n = 0
    for m in msgs:
        n += 1
        if not wf(m):
            bad.append(("serialised message not well-formed", m))
        cuts = [i + 1 for i, ch in enumerate(m[:-1]) if ch == ">"]
        if any(wf(m[:c]) for c in cuts):
            bad.append(("F1 strict prefix accepted", m))
        if wf(m + "x") or wf(m + "<"):
            bad.append(("F2 text after the root accepted", m))
        if not wf("\n  " + m) or not wf(m + "\n"):
            bad.append(("blanks around the root rejected", m))
        if wf('\n<?xml version="1.0"?>\n' + m):
            bad.append(("declaration after a blank accepted", m))
        if not wf('<?xml version="1.0"?>' + chr(10) + m):
            bad.append(("declaration + element rejected", m))
        if m.endswith(">>"):
            bad.append(("F4 ends in >>", m))
    for L in (1, 2, 3):
        for t in itertools.product("<>a/ ?", repeat=L):
            n += 1
            if wf("".join(t)):
                bad.append(("F5 short document", "".join(t)))
    return [dict(what="XML facts F1/F2/F4/F5 and blank handling on real expat (21 message kinds, all strings < 4 over the markup alphabet)",
                 cases=n, ok=not bad, detail=str(bad[:3]))]
