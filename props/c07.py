"""C07 -- getProperties is answered with exactly the definitions asked for.

enc: Driver.message_from_client (GetProperties branch), Driver.accepts,
Vector.to_def_message / to_set_message (all five kinds), Element.to_def_message /
to_set_message, definition defaults, every Def*/One*/Set* constructor,
Router.process_message, from_xml/to_xml (re-parse of everything emitted).

A three-level driver (Base -> Mid -> Rich: five vector kinds, three groups) and
a second device on one router.  Symbolic: the driver state (text values
unbounded, switch bits, number by index, vector / group / element enabled bits,
BLOB set or unset), the request's device (this, other, none, unknown) and name
(each vector, a disabled one, unknown, empty, none).  Asserted: (i) the def*
messages handed to the router are exactly the reference's (one per enabled
addressed vector, enabled elements, current values, metadata); (ii) every
message the driver emits parses back through the wire to an equal view.
"""
from __future__ import annotations

from props.common import (Condition, Draw, Reject, make_condition, verdict, note, MODE, msg_view)
from props.c03 import norm_view
from props.driverlib import NUMBER_VALUES, expected_def_view, rich_driver_classes, strip_timestamp, vector_kind
from props.netlib import Net

ENC = ("indi.device.driver.Driver.message_from_client", "indi.device.driver.Driver.accepts", "indi.device.driver.Driver.send_message",
       "indi.device.driver.Driver._all_group_definitions", "indi.device.properties.instance.vectors.*.to_def_message",
       "indi.device.properties.instance.vectors.*.to_set_message", "indi.device.properties.instance.elements.*.to_def_message",
       "indi.device.properties.instance.elements.*.to_set_message", "indi.device.properties.definition.elements.*",
       "indi.routing.router.Router.process_message", "indi.message.base.IndiMessage.from_xml/to_xml")
BOUNDS = {"quick": "one 3-level driver with 6 vectors (all kinds) + a second device; symbolic state per focus vector, request over 4 device "
                   "names x 10 property names", "thorough": "two focus vectors at once"}
OUTSIDE = "number rendering itself (C10); fragmentation (C02)"
ASSUMPTIONS = ["tree wire contract (C03)", "a delProperty answer for a disabled vector is not a definition"]

REQ_DEVICES = ("DEV", "OTHER", None, "NOPE")
REQ_NAMES = ("TXT", "SW", "NUM", "LI", "BLOB", "ANY", "NOPE", "", None)
FOCI = ("txt", "sw", "num", "li", "blob", "any")


def perturb_state(d: Draw, drv, focus, light=False, textlen=None):
    """Symbolic state of the focus vector (the others keep their defaults).
    light=True: only the enabled bits and the value are symbolic."""
    from indi.device import values
    vec = getattr(drv, {"txt": "main", "sw": "main", "num": "aux", "li": "aux", "blob": "img", "any": "img"}[focus])
    vec = getattr(vec, focus)
    vec._enabled = d.bool("vector-enabled")
    vec.group._enabled = d.bool("group-enabled")
    els = list(vec._elements.values())
    if not light:
        els[-1]._enabled = d.bool("last-element-enabled")
        vec._state = d.choice(("Ok", "Alert"), "state")
    kind = vector_kind(vec)
    if kind == "Text":
        els[0]._value = d.str(textlen, "text")
    elif kind == "Switch":
        for i, e in enumerate(els[:2]):
            e._value = "On" if d.bool(f"bit{i}") else "Off"
    elif kind == "Number":
        els[0]._value = d.choice(NUMBER_VALUES, "number")
    elif kind == "Light":
        els[0]._value = d.choice(("Idle", "Ok", "Busy", "Alert"), "light")
    elif kind == "BLOB":
        if d.bool("blob-set"):
            els[0]._value = values.BLOB(b"\x00\x01\x02", ".bin")
    return vec


def request(focus, family):
    """family 'state': symbolic state of the focus vector, the request names it
    (or everything); family 'addr': default state plus a symbolic enabled bit,
    the request's device and name are symbolic.  (The product of both was
    1 100-1 700 paths and 13-18 minutes per condition.)"""
    def body(d: Draw):
        from indi.routing.router import Router
        from indi.routing import Client
        from indi import message
        net = Net()
        Rich, Other, Mid, Base = rich_driver_classes()
        router = Router()
        drv = Rich(router=router)
        oth = Other(router=router)
        emitted = []

        class Rec(Client):
            def message_from_device(self, m):
                emitted.append(m)
        rec = Rec()
        router.register_client(rec)
        # BLOB payload updates are delivered too
        router.blob_routing[rec] = {"DEV": "Also", "OTHER": "Also"}
        class Asker(Client):
            def message_from_device(self, m):
                pass
        asker = Asker()
        router.register_client(asker)
        if family == "state":
            vec = perturb_state(d, drv, focus)
            dev = "DEV"
            name = vec.name if d.bool("named-request") else None
        else:
            vec = perturb_state(d, drv, focus, light=True)
            dev = d.choice(REQ_DEVICES, "req-device")
            name = d.choice(REQ_NAMES, "req-name")
        try:
            router.process_message(message.GetProperties(version="1.7", device=dev, name=name), sender=asker)
        except Exception as e:
            if MODE.trace is not None:
                note("raised", repr(e))
            return verdict(False, "answering getProperties raised")
        got = [strip_timestamp(norm_view(msg_view(m))) for m in emitted if type(m).__name__.startswith("Def")]
        want = []
        for dname, dd in (("DEV", drv), ("OTHER", oth)):
            if dev is not None and dev != dname:
                continue
            for vname, vec in dd._vectors.items():
                if name and name != vname:
                    continue
                if vec.enabled:
                    want.append(strip_timestamp(norm_view(expected_def_view(vec, dname))))
        if MODE.trace is not None:
            note("request", dev, name, "got", got, "want", want)
        if len(got) != len(want):
            return verdict(False, f"{len(got)} definitions sent, {len(want)} expected")
        rest = list(got)
        for w in want:
            if w not in rest:
                return verdict(False, "a definition differs from the driver's state / metadata")
            rest.remove(w)
        # (ii) everything emitted is a valid message that reads back unchanged
        for m in emitted:
            back = net.transfer(m)
            if back is None:
                if MODE.trace is not None:
                    note("unparsable", type(m).__name__, msg_view(m), repr(net.parse_failures[-1][1]))
                return verdict(False, "the driver emitted a message the library's parser rejects")
            if norm_view(msg_view(back)) != norm_view(msg_view(m)):
                return verdict(False, "an emitted message reads back changed")
        return verdict(True)
    return body


def updates(focus):
    """Every update the driver emits on a driver-side operation is a valid
    message that reads back unchanged."""
    def body(d: Draw):
        from indi.routing.router import Router
        from indi.routing import Client
        net = Net()
        Rich, Other, Mid, Base = rich_driver_classes()
        router = Router()
        drv = Rich(router=router)
        emitted = []

        class Rec(Client):
            def message_from_device(self, m):
                emitted.append(m)
        rec = Rec()
        router.register_client(rec)
        router.blob_routing[rec] = {"DEV": "Also"}
        # old and new text are compared by the setter: both need the length bound
        vec = perturb_state(d, drv, focus, light=True, textlen=1)
        op = d.choice(("state", "enable-vector", "enable-group", "assign"), "op")
        try:
            if op == "state":
                vec.state_ = d.choice(("Idle", "Ok", "Busy", "Alert"), "new-state")
            elif op == "enable-vector":
                vec.enabled = d.bool("on")
            elif op == "enable-group":
                vec.group.enabled = d.bool("on")
            else:
                el = list(vec._elements.values())[0]
                kind = vector_kind(vec)
                if kind == "Text":
                    el.value = d.str(1, "new-text")
                elif kind == "Switch":
                    el.value = "On" if d.bool("new-bit") else "Off"
                elif kind == "Number":
                    el.value = d.choice(NUMBER_VALUES, "new-number")
                elif kind == "Light":
                    el.value = d.choice(("Idle", "Ok", "Busy", "Alert"), "new-light")
                else:
                    from indi.device import values
                    el.value = values.BLOB(b"\x05\x06", ".raw")
        except Reject:
            raise
        except Exception as e:
            if MODE.trace is not None:
                note("raised", repr(e))
            return verdict(False, "a driver-side operation raised")
        for m in emitted:
            back = net.transfer(m)
            if back is None:
                if MODE.trace is not None:
                    note("unparsable", type(m).__name__, msg_view(m), repr(net.parse_failures[-1][1]))
                return verdict(False, "the driver emitted a message the library's parser rejects")
            if norm_view(msg_view(back)) != norm_view(msg_view(m)):
                return verdict(False, "an emitted message reads back changed")
        return verdict(True)
    return body


def conditions(tier):
    out = []
    for f in FOCI:
        out.append(Condition(f"request-state/{f}", make_condition(request(f, "state"), 1, 5, 7),
                             about=f"getProperties for the {f} vector (or all) of a driver whose {f} vector has symbolic state",
                             encodes=ENC, timeout=1800))
        if f in ("txt", "num", "blob") or tier == "thorough":
            out.append(Condition(f"request-addr/{f}", make_condition(request(f, "addr"), 1, 5, 7),
                                 about=f"getProperties with symbolic device (this/other/none/unknown) and name (9 choices), {f} vector "
                                       f"enabled or disabled", encodes=ENC, timeout=1800))
        out.append(Condition(f"updates/{f}", make_condition(updates(f), 2, 5, 7),
                             about=f"driver-side operations on the {f} vector: every emitted message re-parses unchanged",
                             encodes=ENC, timeout=1800))
    return out


def validate_stubs():
    out = []
    from props import c03
    out += c03.validate_stubs()          # tree wire against ET.tostring / expat
    return out


def signature(cond_name, args, detail):
    tr = " ".join((detail or {}).get("trace", []))
    f = cond_name.split("/")[1]
    if "parser rejects" in tr:
        return f"C07:{f}:unparsable"
    return f"C07:{cond_name}"
