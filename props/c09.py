"""C09 -- switch properties always satisfy their rule.

enc: instance.SwitchVector.apply_rule / selected_value(s) setters /
from_new_message, instance.Switch.check_value / bool_value, Element.value
setter / set_value / set_value_from_message, Vector.to_set_message,
definition.SwitchVector.__init__ (default_on), Driver.message_from_client.

Inductive step: a real driver with one switch vector of the given rule and size;
the switches' raw state is an arbitrary bit vector satisfying the rule's
invariant (symbolic); one symbolic operation.  Asserted: the post-state and
every setSwitchVector published on the way satisfy the invariant; a switch
turned On is On afterwards; in AnyOfMany only the named switch changed.
"""
from __future__ import annotations

from props.common import Condition, Draw, Reject, make_condition, verdict, note, MODE
from props.driverlib import switch_driver, switch_bits

ENC = ("indi.device.properties.instance.vectors.SwitchVector.apply_rule",
       "indi.device.properties.instance.vectors.SwitchVector.selected_value.setter",
       "indi.device.properties.instance.vectors.SwitchVector.selected_values.setter",
       "indi.device.properties.instance.vectors.Vector.from_new_message",
       "indi.device.properties.instance.vectors.Vector.to_set_message",
       "indi.device.properties.instance.elements.Switch.check_value",
       "indi.device.properties.instance.elements.Switch.bool_value.setter",
       "indi.device.properties.instance.elements.Element.value.setter",
       "indi.device.properties.instance.elements.Element.set_value",
       "indi.device.properties.definition.vectors.SwitchVector.__init__",
       "indi.device.driver.Driver.message_from_client")
BOUNDS = {"quick": "3 rules x 1..3 switches x 7 operation kinds, arbitrary rule-satisfying pre-state; 2-step histories from default_on configurations",
          "thorough": "3 rules x 1..5 switches; 2-step histories over five operation kinds"}
OUTSIDE = "more than 5 switches; written values other than On/Off (C12/C13); initial configurations that violate the rule"
ASSUMPTIONS = ["initial configurations satisfy the rule", "written values are On/Off"]

RULES = ("OneOfMany", "AtMostOne", "AnyOfMany")
OPS = ("client1", "client2", "client3", "value", "bool_value", "selected_value", "selected_values")


def invariant_ok(rule, pre_count, bits):
    n_on = len([b for b in bits if b])
    if rule == "OneOfMany":
        return n_on == 1 if pre_count == 1 else n_on <= 1
    if rule == "AtMostOne":
        return n_on <= 1
    return True


def published_ok(rule, pre_count, ctl, names):
    """Every setSwitchVector the driver published satisfies the rule."""
    saw_one = pre_count == 1
    for m in ctl.got:
        if type(m).__name__ != "SetSwitchVector":
            continue
        vals = {c.name: c.value for c in m.children}
        if sorted(vals) != sorted(names):
            return False
        bits = [vals[nm] == "On" for nm in names]
        n_on = len([b for b in bits if b])
        if rule == "OneOfMany":
            if (saw_one and n_on != 1) or n_on > 1:
                return False
            if n_on == 1:
                saw_one = True
        elif rule == "AtMostOne" and n_on > 1:
            return False
    return True


def draw_pre(d: Draw, rule, n):
    bits = [d.bool(f"pre{i}") for i in range(n)]
    n_on = len([b for b in bits if b])
    if rule in ("OneOfMany", "AtMostOne") and n_on > 1:
        raise Reject()
    return bits


def apply_op(d: Draw, op, drv, vec, names, n):
    """Applies one symbolic operation; returns (targets, last_on) where targets
    are the indices the operation names and last_on the index that must be On."""
    from indi import message
    from indi.message import one_parts
    els = list(vec._elements.values())
    if op in ("client1", "client2", "client3"):
        cnt = int(op[-1])
        kids, targets, last_on = [], [], None
        for j in range(cnt):
            i = d.int(0, n - 1, f"target{j}")
            on = d.bool(f"on{j}")
            kids.append(one_parts.OneSwitch(name=names[i], value="On" if on else "Off"))
            targets.append(i)
            if on:
                last_on = i
            elif last_on == i:
                last_on = None
        drv.message_from_client(message.NewSwitchVector(device=drv.name, name="SW", children=tuple(kids)))
        return targets, last_on
    if op == "value":
        i = d.int(0, n - 1, "target")
        on = d.bool("on")
        els[i].value = "On" if on else "Off"
        return [i], (i if on else None)
    if op == "bool_value":
        i = d.int(0, n - 1, "target")
        on = d.bool("on")
        els[i].bool_value = on
        return [i], (i if on else None)
    if op == "selected_value":
        i = d.int(0, n - 1, "target")
        vec.selected_value = names[i]
        return list(range(n)), i
    if op == "selected_values":
        sel = [d.bool(f"sel{i}") for i in range(n)]
        vec.selected_values = [names[i] for i in range(n) if sel[i]]
        ons = [i for i in range(n) if sel[i]]
        return list(range(n)), (ons[-1] if ons else None)
    raise AssertionError(op)


def step(rule, n, op):
    def body(d: Draw):
        drv, router, ctl = switch_driver(rule, n)
        vec = drv.main.sw
        names = [f"S{i}" for i in range(n)]
        pre = draw_pre(d, rule, n)
        for el, b in zip(vec._elements.values(), pre):
            el._value = "On" if b else "Off"
        pre_count = len([b for b in pre if b])
        ctl.got.clear()
        if op == "selected_values" and rule != "AnyOfMany":
            pass
        targets, last_on = apply_op(d, op, drv, vec, names, n)
        post = switch_bits(vec)
        ok, why = True, ""
        if not invariant_ok(rule, pre_count, post):
            ok, why = False, f"{rule}: post-state {post} violates the rule (pre {pre})"
        elif last_on is not None and not post[last_on]:
            if not (op == "selected_values" and rule != "AnyOfMany"):
                ok, why = False, f"switch {last_on} was turned On but is Off afterwards"
        elif rule == "AnyOfMany" and any(post[i] != pre[i] for i in range(n) if i not in targets):
            ok, why = False, "AnyOfMany: a switch that was not named changed"
        elif not published_ok(rule, pre_count, ctl, names):
            ok, why = False, "a published setSwitchVector violates the rule"
        if MODE.trace is not None:
            note(rule, n, op, "pre", pre, "post", post, "targets", targets, "last_on", last_on, why)
        return verdict(ok, why)
    return body


def history(rule, n, k, default_on, ops):
    def body(d: Draw):
        names = [f"S{i}" for i in range(n)]
        drv, router, ctl = switch_driver(rule, n, default_on=default_on)
        vec = drv.main.sw
        for _ in range(k):
            pre = switch_bits(vec)
            pre_count = len([b for b in pre if b])
            ctl.got.clear()
            op = d.choice(ops, "op")
            targets, last_on = apply_op(d, op, drv, vec, names, n)
            post = switch_bits(vec)
            if not invariant_ok(rule, pre_count, post):
                return verdict(False, f"{rule}: {pre} -> {post}")
            if last_on is not None and not post[last_on]:
                return verdict(False, "turned On but Off afterwards")
            if rule == "AnyOfMany" and any(post[i] != pre[i] for i in range(n) if i not in targets):
                return verdict(False, "AnyOfMany: unnamed switch changed")
            if not published_ok(rule, pre_count, ctl, names):
                return verdict(False, "published message violates the rule")
        return verdict(True)
    return body


def default_on_names(rule):
    """default_on names a switch by equality: with names that contain one
    another (the stock CONNECT / DISCONNECT) exactly the named switch starts On,
    and the first definition a client gets satisfies the rule."""
    def body(d: Draw):
        from indi.device import Driver, properties
        from indi.routing.router import Router
        from indi.routing import Client
        from indi import message
        names = ("CONNECT", "DISCONNECT", "CONNECTED")
        which = d.choice(names, "default-on")
        as_tuple = d.bool("given-as-tuple")

        class Drv(Driver):
            name = "DEV"
            main = properties.Group("MAIN", vectors=dict(sw=properties.SwitchVector(
                "SW", rule=rule, default_on=((which,) if as_tuple else which),
                elements=dict(a=properties.Switch(names[0]), b=properties.Switch(names[1]), c=properties.Switch(names[2])))))
        got = []

        class Rec(Client):
            def message_from_device(self, m):
                got.append(m)
        router = Router()
        rec = Rec()
        router.register_client(rec)
        drv = Drv(router=router)
        on = [e.name for e in drv.main.sw._elements.values() if e._value == "On"]
        router.process_message(message.GetProperties(version="1.7"), sender=rec)
        defs = [m for m in got if type(m).__name__ == "DefSwitchVector"]
        ok = on == [which] and len(defs) == 1 and [c.name for c in defs[0].children if c.value == "On"] == [which]
        return verdict(ok, "default_on did not turn On exactly the named switch")
    return body


def conditions(tier):
    out = []
    for rule in RULES:
        out.append(Condition(f"default-on/{rule}", make_condition(default_on_names(rule), 0, 1, 1),
                             about="default_on with switch names that contain one another", encodes=ENC, timeout=300))
    thorough = tier == "thorough"
    sizes = (1, 2, 3, 4, 5) if thorough else (1, 2, 3)
    for rule in RULES:
        for n in sizes:
            for op in OPS:
                if op in ("client2", "client3") and n == 1 and op == "client3":
                    continue
                if n >= 4 and op in ("client3",):
                    continue
                if not thorough and op == "client3" and n == 3:
                    continue  # 1 200-2 400 paths (5-10 min); thorough only
                out.append(Condition(f"step/{rule}/{n}/{op}", make_condition(step(rule, n, op), 0, 3, 2 * n + 3),
                                     about=f"{rule}, {n} switches, arbitrary valid pre-state, one {op} operation",
                                     encodes=ENC, bounds=f"{n} switches", timeout=600))
        # k operations multiply: 57 choices per step with all five kinds
        # (measured: 3 300 paths unfinished in 900 s); quick uses three kinds
        k = 2
        hops = ("client1", "client2", "value", "bool_value", "selected_value") if thorough else ("client1", "bool_value", "selected_value")
        for default_on in (None, "S0"):
            out.append(Condition(f"history{k}/{rule}/{default_on}", make_condition(history(rule, 3, k, default_on, hops), 0, 3 * k + 1, 2 * k),
                                 about=f"{k} symbolic operations from the initial configuration default_on={default_on}",
                                 encodes=ENC, bounds=f"3 switches, {k} operations", timeout=900))
    return out


def signature(cond_name, args, detail):
    parts = cond_name.split("/")
    if parts[0] == "step":
        return f"C09:{parts[1]}:{parts[3]}"
    return f"C09:{parts[1]}:history"
