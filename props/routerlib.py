"""Recording endpoints and message factories for the router properties C04/C05."""
from __future__ import annotations

from props.common import MSG_SPECS, PART_SPECS, msg_class, part_class

POLICIES = (None, "Never", "Also", "Only")   # None = never set
NAMES = ("A", "B", None, "X")                 # two devices, no name, unknown


def endpoints():
    """Classes are created per call so that nothing leaks between paths."""
    from indi.routing import Client, Device

    class RecClient(Client):
        def __init__(self, label):
            self.label = label
            self.got = []

        def message_from_device(self, message):
            self.got.append(message)

        def __repr__(self):
            return f"<client {self.label}>"

    class RecDevice(Device):
        def __init__(self, label, name, catch_all=False):
            self.label, self.name, self.catch_all = label, name, catch_all
            self.got = []

        def accepts(self, device):
            return self.catch_all or device is None or device == self.name

        def message_from_client(self, message):
            self.got.append(message)

        def __repr__(self):
            return f"<device {self.label}>"

    return RecClient, RecDevice


def ref_accepts(dev_name, catch_all, msg_device):
    """INDI addressing rule, written independently of Driver.accepts."""
    if catch_all:
        return True
    if msg_device is None:
        return True
    return msg_device == dev_name


def make_message(kind: str, device, nonce="n"):
    """A valid message of the given DTD kind addressed to `device`."""
    fields, child = MSG_SPECS[kind]
    kw = {}
    for name, req, k in fields:
        if name == "device":
            kw[name] = device
        elif k in ("s", "t"):
            kw[name] = nonce
        else:
            kw[name] = k[0]
    if "device" not in kw and kind in ("PingRequest", "PingReply", "OneLight"):
        pass
    if child:
        ckw = {}
        for name, req, k in PART_SPECS[child]:
            ckw[name] = nonce if k in ("s", "t") else k[0]
        kw["children"] = (part_class(child)(**ckw),)
    m = msg_class(kind)(**kw)
    return m


CLIENT_KINDS = [k for k in MSG_SPECS if k in ("GetProperties", "EnableBLOB", "PingReply", "NewTextVector",
                                               "NewNumberVector", "NewSwitchVector", "NewBLOBVector")]
DEVICE_KINDS = [k for k in MSG_SPECS if k.startswith("Def") or k.startswith("Set")
                or k in ("DelProperty", "Message", "PingRequest", "OneLight")]


def direction_table():
    """(from_client, from_device) per kind as the INDI protocol has it."""
    t = {}
    for k in MSG_SPECS:
        t[k] = (k in CLIENT_KINDS, k in DEVICE_KINDS or k == "GetProperties")
    return t


def ref_policy_admits(policy, is_blob_payload):
    """INDI enableBLOB semantics."""
    if policy in (None, "Never"):
        return not is_blob_payload
    if policy == "Also":
        return True
    if policy == "Only":
        return is_blob_payload
    raise AssertionError(policy)
