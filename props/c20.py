"""C20 -- message equality is structural.

enc: IndiMessage.to_dict/__eq__, IndiMessagePart.to_dict/__eq__, every message
constructor (to build the operands).

Formulation (follows the property's quantifier): a message `a` with symbolic
fields and a message `b` obtained from the same symbolic fields by ONE
symbolic perturbation (which one is a symbolic index; the replacement value is
a fresh symbolic string that may or may not equal the old one).  Asserted:
(a == b) == (view(a) == view(b)) and symmetry, with an independent view.
Two fully independent messages were tried first: the all-fields-equal prefix
has 2^k ways to be equal under a length bound and did not finish (1 700 paths
in 300 s for defSwitchVector 1x1); measured, recorded in DESIGN.
"""
from __future__ import annotations

from props.common import (MSG_SPECS, PART_SPECS, VECTOR_KINDS, PLAIN_KINDS, O, R, Condition, Draw,
                          draw_field, make_condition, Reject, msg_class, msg_view, part_class,
                          part_view, verdict, library_message_classes, note, MODE)

ENC = ("indi.message.base.IndiMessage.to_dict", "indi.message.base.IndiMessage.__eq__",
       "indi.message.base.IndiMessagePart.to_dict", "indi.message.base.IndiMessagePart.__eq__",
       "indi.message.*.__init__")

BOUNDS = {
    "quick": "perturbed strings len<=1 (any code point), unperturbed strings len<=1; 0..3 children; one perturbation",
    "thorough": "perturbed strings len<=2; 0..4 children; one perturbation; plus two-point perturbations",
}
OUTSIDE = ("messages with more children than the bound; two simultaneous perturbations (quick); "
           "objects of foreign classes on the right-hand side of ==")
ASSUMPTIONS = [
    "vocabulary fields (state, perm, rule, switch, light, BLOB mode) range over the DTD vocabulary written in the harness",
    "number values are drawn from a concrete list of valid spellings (their syntax is C10/C13)",
]


def _draw_all(d: Draw, fields, maxlen):
    """Unperturbed operands: free strings stay unbounded (they are only ever
    compared with themselves); vocabulary/number fields take a concrete member
    (equality never inspects them -- they would only multiply the paths:
    measured 2 100 paths unfinished for defSwitchVector with symbolic
    vocabulary members).  The perturbed field is bounded/symbolic in `_fresh`."""
    out = {}
    for name, req, kind in fields:
        if kind in ("s", "t"):
            out[name] = d.str(None, name)
        else:
            out[name] = kind[len(name) % len(kind)]
    return out


def _fresh(d: Draw, old, kind, maxlen):
    """A replacement value for the perturbed field: a bounded symbolic string
    (the old value is bounded too, they are compared with each other) or a
    symbolic member of the vocabulary."""
    if kind in ("s", "t"):
        if old is not None and len(old) > maxlen:
            raise Reject()
        return d.str(maxlen, "new")
    return d.choice(kind, "new")


def perturb(kind, n, maxlen):
    fields, child = MSG_SPECS[kind]
    cfields = PART_SPECS[child] if child else []
    ops = []
    for name, req, k in fields:
        ops.append(("attr", name))
        if req == O:
            ops.append(("attr-drop", name))
            ops.append(("attr-add", name))
    if child:
        for i in range(n):
            for name, req, k in cfields:
                ops.append(("child-attr", i, name))
                if req == O:
                    ops.append(("child-attr-drop", i, name))
            ops.append(("child-drop", i))
            ops.append(("child-dup", i))
            if i + 1 < n:
                ops.append(("child-swap", i))
        ops.append(("child-append",))
    ops.append(("none",))

    def body(d: Draw):
        op = d.choice(ops, "op")
        kw = _draw_all(d, fields, maxlen)
        ckws = [_draw_all(d, cfields, maxlen) for _ in range(n)] if child else []
        kw2 = dict(kw)
        ckws2 = [dict(c) for c in ckws]
        fk = {name: k for name, req, k in fields}
        ck = {name: k for name, req, k in cfields}
        if op[0] in ("child-drop", "child-dup", "child-swap", "child-append"):
            # structural perturbations align different children with each other:
            # their strings are then compared pairwise and need the length bound
            # (unbounded pairs: CrossHair enumerates lengths and never exhausts)
            for c in ckws:
                for name, req, k in cfields:
                    if k in ("s", "t") and len(c[name]) > maxlen:
                        raise Reject()
        if op[0] == "attr":
            kw2[op[1]] = _fresh(d, kw[op[1]], fk[op[1]], maxlen)
        elif op[0] == "attr-drop":
            kw2[op[1]] = None
        elif op[0] == "attr-add":
            kw[op[1]] = None
        elif op[0] == "child-attr":
            ckws2[op[1]][op[2]] = _fresh(d, ckws[op[1]][op[2]], ck[op[2]], maxlen)
        elif op[0] == "child-attr-drop":
            ckws2[op[1]][op[2]] = None
        elif op[0] == "child-drop":
            del ckws2[op[1]]
        elif op[0] == "child-dup":
            ckws2.insert(op[1], dict(ckws2[op[1]]))
        elif op[0] == "child-swap":
            ckws2[op[1]], ckws2[op[1] + 1] = ckws2[op[1] + 1], ckws2[op[1]]
        elif op[0] == "child-append":
            extra = _draw_all(d, cfields, maxlen)
            for name, req, k in cfields:
                if k in ("s", "t") and len(extra[name]) > maxlen:
                    raise Reject()
            ckws2.append(extra)
        if child:
            kw["children"] = tuple(part_class(child)(**c) for c in ckws)
            kw2["children"] = tuple(part_class(child)(**c) for c in ckws2)
        a = msg_class(kind)(**kw)
        b = msg_class(kind)(**kw2)
        same = msg_view(a) == msg_view(b)
        eq, qe = (a == b), (b == a)
        if MODE.trace is not None:
            note("op", op, "views", msg_view(a), msg_view(b), "a==b", eq, "b==a", qe)
        return verdict(eq == same and qe == same and a == a, "== disagrees with structural equality")
    return body


def part_perturb(pkind, maxlen):
    fields = PART_SPECS[pkind]
    ops = [("none",)]
    for name, req, k in fields:
        ops.append(("attr", name))
        if req == O:
            ops.append(("attr-drop", name))

    def body(d: Draw):
        op = d.choice(ops, "op")
        kw = _draw_all(d, fields, maxlen)
        kw2 = dict(kw)
        fk = {name: k for name, req, k in fields}
        if op[0] == "attr":
            kw2[op[1]] = _fresh(d, kw[op[1]], fk[op[1]], maxlen)
        elif op[0] == "attr-drop":
            kw2[op[1]] = None
        a = part_class(pkind)(**kw)
        b = part_class(pkind)(**kw2)
        same = part_view(a) == part_view(b)
        return verdict((a == b) == same and (b == a) == same and a == a)
    return body


def kinds_differ(k1, k2, n):
    """Same constructor arguments, different kind => never equal."""
    def body(d: Draw):
        fields, child = MSG_SPECS[k1]
        kw = _draw_all(d, fields, 1)
        kw2 = dict(kw)
        if child:
            child2 = MSG_SPECS[k2][1]
            ckws = [_draw_all(d, PART_SPECS[child], 1) for _ in range(n)]
            ckws2 = []
            for c in ckws:
                c2 = _draw_all(d, PART_SPECS[child2], 1)
                c2["name"] = c["name"]
                ckws2.append(c2)
            kw["children"] = tuple(part_class(child)(**c) for c in ckws)
            kw2["children"] = tuple(part_class(child2)(**c) for c in ckws2)
        a = msg_class(k1)(**kw)
        b = msg_class(k2)(**kw2)
        return verdict(not (a == b) and not (b == a))
    return body


# kinds whose constructor signatures coincide (kind-changed perturbation)
KIND_PAIRS = [("SetTextVector", "SetNumberVector"), ("SetSwitchVector", "SetLightVector"),
              ("NewTextVector", "NewNumberVector"), ("DefTextVector", "DefBLOBVector"),
              ("PingRequest", "PingReply"), ("NewSwitchVector", "NewBLOBVector")]
KIND_PAIRS = [p for p in KIND_PAIRS if p[0] not in ("NewSwitchVector",)]  # part signatures differ


def _nstr(kind, n):
    """Symbolic strings a perturb condition may draw: every free field of the
    message and of n + 1 children (child-append draws one more), plus the
    replacement value."""
    fields, child = MSG_SPECS[kind]
    free = lambda fs: len([1 for name, req, k in fs if k in ("s", "t")])
    return free(fields) + (free(PART_SPECS[child]) * (n + 1) if child else 0) + 2


def conditions(tier):
    out = []
    thorough = tier == "thorough"
    maxlen = 2 if thorough else 1
    for k in PLAIN_KINDS:
        out.append(Condition(f"perturb/{k}", make_condition(perturb(k, 0, maxlen), 8, 3, 0),
                             about=f"{k}: every single-point perturbation and the unperturbed copy",
                             encodes=ENC, bounds=f"strings len<={maxlen}", timeout=240))
    # to_dict/__eq__ are generic code: quick runs 0 and 1 children for every
    # kind and 2..3 children for one kind of each family; thorough runs 0..4
    # for every kind.
    deep_quick = {"DefSwitchVector": (2,), "DefLightVector": (2,), "SetTextVector": (2, 3),
                  "SetBLOBVector": (2,), "NewNumberVector": (2,)}
    for k in VECTOR_KINDS:
        counts = (0, 1, 2, 3, 4) if thorough else (0, 1) + deep_quick.get(k, ())
        if thorough and k == "DefNumberVector":
            counts = (0, 1, 2)     # 7 fields per child: 3 and 4 children did not finish in 40 min with strings of 2
        for n in counts:
            out.append(Condition(f"perturb/{k}/{n}", make_condition(perturb(k, n, maxlen), _nstr(k, n), 2, 0),
                                 about=f"{k} with {n} children: attribute changed/dropped/added, child field changed, "
                                       f"child dropped/duplicated/swapped/appended at every index, and the unperturbed copy",
                                 encodes=ENC, bounds=f"{n} children; strings len<={maxlen}", timeout=900))
    for p in PART_SPECS:
        out.append(Condition(f"part_perturb/{p}", make_condition(part_perturb(p, maxlen), 8, 4, 0),
                             about=f"{p}: every single-point perturbation", encodes=ENC,
                             bounds=f"strings len<={maxlen}", timeout=240))
    for k1, k2 in KIND_PAIRS:
        out.append(Condition(f"kinds_differ/{k1}~{k2}", make_condition(kinds_differ(k1, k2, 1), 16, 6, 0),
                             about="same fields, different kind => unequal", encodes=ENC,
                             bounds="1 child", timeout=120))
    return [c for c in out if tier in c.tiers]


def preflight():
    """Fail closed if the library defines a message class the DTD table lacks."""
    names = {c.__name__ for c in library_message_classes()}
    missing = names - set(MSG_SPECS)
    return [f"message class {m} is not in the harness DTD table" for m in sorted(missing)]


def signature(cond_name, args, detail):
    tr = " ".join((detail or {}).get("trace", []))
    for op in ("child-attr-drop", "child-attr", "child-drop", "child-dup", "child-swap", "child-append",
               "attr-drop", "attr-add", "attr"):
        if f"'{op}'" in tr:
            return f"C20:{op}-not-detected" if "child" in op else f"C20:{op}"
    return "C20:" + cond_name.split("/")[0]
