"""C16 -- client change events are complete and exact.

enc: everything C15 encodes plus _CallbackConfig.accepts_event,
BaseClient.onevent / rmonevent / trigger_event, client.events.*.

Same inductive setting as C15 (mirror built by real def* messages, then one or
two symbolic messages).  An unfiltered recorder logs every event; the expected
events are derived from consecutive snapshots of the reference interpreter:
for every element an event iff its value changed, carrying (old, new) of the
snapshots -- hence chains are unbroken by construction of the oracle -- and
likewise for vector states; one DefinitionUpdate per definition.  Filtered
callbacks (symbolic filter per field: absent / matching / other; symbolic event
type) must log exactly the recorder's events that the reference predicate
admits, nothing after removal, and a raising callback must not starve the rest.
"""
from __future__ import annotations

from props.clientlib import (ALT, DEVS, ELS, KINDS, NOMINAL, VECS, child_for, def_message, kind_of_message,
                             recording_client, ref_step, set_message)
from props.c15 import LAYOUTS, build_pre, draw_message
from props.common import Condition, Draw, Reject, make_condition, verdict, note, MODE, kf_open

ENC = ("indi.client.client._CallbackConfig.accepts_event", "indi.client.client.BaseClient.onevent",
       "indi.client.client.BaseClient.rmonevent", "indi.client.client.BaseClient.trigger_event",
       "indi.client.events.*", "indi.client.device.Device.process_message", "indi.client.vectors.Vector.from_message",
       "indi.client.vectors.Vector.process_message", "indi.client.elements.Element.from_message",
       "indi.client.elements.Element.process_message")
BOUNDS = {"quick": "as C15 (one symbolic message after the pre-state, 1 child) with an unfiltered recorder, one callback with a symbolic "
                   "filter (3^3 field choices x 4 event types), a raising callback registered first, removal by id or by criteria at a symbolic point",
          "thorough": "two-message sequences (redefinition after update, update after deletion)"}
OUTSIDE = "coroutine callbacks (scheduled as tasks; their delivery needs the event loop: covered by C17's loop model only for waitforevent); order of events within one message"
ASSUMPTIONS = ["expected events are derived from consecutive snapshots of the reference mirror", "as C15"]

SIG_DEF_CHAIN = "C16:definition:event-without-change-or-old-value-lost"


def blobval(v):
    if v is not None and not isinstance(v, (str, tuple)):
        return (v.binary, v.format)
    return v


def event_tuple(e):
    n = type(e).__name__
    dev = e.device.name if e.device else None
    vec = e.vector.name if e.vector else None
    el = e.element.name if e.element else None
    if n == "ValueUpdate":
        return (n, dev, vec, el, blobval(e.old_value), blobval(e.new_value))
    if n == "StateUpdate":
        return (n, dev, vec, el, e.old_state, e.new_state)
    return (n, dev, vec, el, None, None)


def expected_events(before, after, m):
    """Events the statement requires for message m (reference snapshots)."""
    op, kind = kind_of_message(m)
    out = []
    if op not in ("def", "set"):
        return out
    vb = before.get(m.device, {}).get(m.name)
    va = after.get(m.device, {}).get(m.name)
    if va is None:
        return out
    if op == "set" and (vb is None or vb.kind != kind):
        return out
    if op == "def":
        out.append(("DefinitionUpdate", m.device, m.name, None, None, None))
    old_state = vb.state if vb is not None else None
    if va.state != old_state:
        out.append(("StateUpdate", m.device, m.name, None, old_state, va.state))
    for e, val in va.elements.items():
        old = vb.elements.get(e) if vb is not None else None
        if val != old:
            out.append(("ValueUpdate", m.device, m.name, e, old, val))
    return out


def same_multiset(a, b):
    if len(a) != len(b):
        return False
    rest = list(b)
    for x in a:
        hit = -1
        for i, y in enumerate(rest):
            if x == y:
                hit = i
                break
        if hit < 0:
            return False
        del rest[hit]
    return True


def ref_accepts(flt, ev):
    """The statement's filter semantics, written independently."""
    fdev, fvec, fel, ftype = flt
    n, dev, vec, el = ev[0], ev[1], ev[2], ev[3]
    if fdev is not None and fdev != dev:
        return False
    if fvec is not None and fvec != vec:
        return False
    if fel is not None and fel != el:
        return False
    return ftype == "BaseEvent" or ftype == n


def fixed_message(layout, op, kind, i):
    from props.c15 import target_for
    dev, vec = target_for(layout, kind)
    val = ALT[kind] if i == 0 else NOMINAL[kind]
    if op == "def":
        return def_message(kind, dev, vec, "Busy" if i == 0 else "Alert",
                           [child_for(kind, "def", "E1", None if kind == "BLOB" else val)])
    return set_message(kind, dev, vec, "Busy" if i == 0 else "Alert", [child_for(kind, "one", "E1", val)])


def events_step(layout, op, kind, mode, second=None):
    """mode: 'chain' (recorder vs reference), 'filter', 'remove', 'raise'."""
    def body(d: Draw):
        from indi.client import events as ev
        client = recording_client()
        ref = build_pre(d, layout, client, symbolic_text=False)
        rec = []
        types = {"BaseEvent": ev.BaseEvent, "ValueUpdate": ev.ValueUpdate, "StateUpdate": ev.StateUpdate,
                 "DefinitionUpdate": ev.DefinitionUpdate}
        flog, flt, fuid, removed_at = [], None, None, None
        if mode == "raise":
            def bad(e):
                raise RuntimeError("callback failure")
            client.onevent(callback=bad)
        client.onevent(callback=lambda e: rec.append(event_tuple(e)))
        if mode in ("filter", "remove"):
            # the filter / removal choices are the subject here: the messages are
            # fixed ones that do raise events (symbolic addressing multiplied the
            # 108 filter combinations by 170 message paths)
            msgs = [fixed_message(layout, op, kind, 0)]
            if second is not None:
                msgs.append(fixed_message(layout, second[0], second[1], 1))
        else:
            msgs = [draw_message(d, op, kind, 1)]
            if second is not None:
                msgs.append(draw_message(d, second[0], second[1], 1))
        if mode in ("filter", "remove"):
            m0 = msgs[0]
            tgt_el = m0.children[0].name if getattr(m0, "children", None) else "E1"
            fdev = d.choice((None, m0.device, "D2" if m0.device != "D2" else "D1"), "f-device")
            fvec = d.choice((None, getattr(m0, "name", None) or "V1", "V2" if getattr(m0, "name", None) != "V2" else "V1"), "f-vector")
            if mode == "remove":
                fel = None
                ftype = d.choice(("BaseEvent", "ValueUpdate"), "f-type")
            else:
                fel = d.choice((None, tgt_el, "E2" if tgt_el != "E2" else "E1"), "f-element")
                ftype = d.choice(("BaseEvent", "ValueUpdate", "StateUpdate", "DefinitionUpdate"), "f-type")
            flt = (fdev, fvec, fel, ftype)
            cb = lambda e: flog.append(event_tuple(e))
            fuid = client.onevent(callback=cb, device=fdev, vector=fvec, element=fel, event_type=types[ftype])
            if mode == "remove":
                removed_at = d.int(0, len(msgs), "remove-at")
                by_criteria = d.bool("by-criteria")
        exp_all = []
        marks = []
        for i, m in enumerate(msgs):
            if mode == "remove" and removed_at == i:
                if by_criteria:
                    client.rmonevent(device=flt[0], vector=flt[1], element=flt[2], event_type=types[flt[3]], callback=cb)
                else:
                    client.rmonevent(uuid=fuid)
                marks.append(len(rec))
            before = ref
            try:
                client.process_message(m)
            except Exception as e:
                if MODE.trace is not None:
                    note("raised", repr(e))
                return verdict(False, "process_message raised")
            ref = ref_step(ref, m)
            exp_all.extend(expected_events(before, ref, m))
        if mode == "remove" and removed_at == len(msgs):
            if by_criteria:
                client.rmonevent(device=flt[0], vector=flt[1], element=flt[2], event_type=types[flt[3]], callback=cb)
            else:
                client.rmonevent(uuid=fuid)
            marks.append(len(rec))
        if MODE.trace is not None:
            note("messages", [(type(m).__name__, m.device, getattr(m, "name", None)) for m in msgs])
            note("recorded", rec)
            note("expected", exp_all)
            note("filter", flt, "filtered log", flog)
        if mode in ("chain", "raise"):
            return verdict(same_multiset(rec, exp_all), "the events raised differ from the changes of the mirror")
        if mode == "chain-lenient":
            # Everything but the recorded finding (definition-time events carry
            # old=None and are raised even without a change): every required
            # event is present up to its old value, and every extra event at
            # least announces the value the mirror now holds.
            strip = lambda e: (e[0], e[1], e[2], e[3], e[5])
            got = [strip(e) for e in rec]
            for e in exp_all:
                if strip(e) not in got:
                    return verdict(False, "a required event is missing")
                got.remove(strip(e))
            for g in got:
                n, dev, vec, el, new = g
                v = ref.get(dev, {}).get(vec)
                if v is None:
                    return verdict(False, "event for a property the mirror does not hold")
                cur = v.state if n == "StateUpdate" else v.elements.get(el)
                if n == "DefinitionUpdate" or new != cur:
                    return verdict(False, "an extra event announces a value the mirror does not hold")
            return verdict(True)
        if mode == "filter":
            want = [e for e in rec if ref_accepts(flt, e)]
            return verdict(same_multiset(flog, want), "a filtered callback saw the wrong events")
        if mode == "remove":
            upto = marks[0] if marks else len(rec)
            want = [e for e in rec[:upto] if ref_accepts(flt, e)]
            if len(client.callbacks) != 1:
                return verdict(False, "removal left the wrong set of callbacks registered")
            return verdict(same_multiset(flog, want), "a callback was invoked after its removal (or lost events before it)")
        raise AssertionError(mode)
    return body


def remove_during_dispatch():
    """A callback removes a callback (itself or a later one) while an event is
    being dispatched: every callback still registered at its turn is invoked
    exactly once, a removed one is not invoked after its removal."""
    def body(d: Draw):
        client = recording_client()
        build_pre(d, "A", client, symbolic_text=False)
        log = []
        ids = {}
        victim = d.choice(("A", "B", "C"), "removed-callback")
        by_criteria = d.bool("by-criteria")
        pos = d.choice((0, 1), "position-of-the-remover")     # first or second in registration order

        def remover(e):
            log.append("R")
            if victim == "A":
                tgt = "R"
            else:
                tgt = victim
            if by_criteria:
                client.rmonevent(callback=cbs[tgt])
            else:
                client.rmonevent(uuid=ids[tgt])

        def mk(tag):
            def cb(e):
                log.append(tag)
            return cb
        cbs = {"R": remover, "B": mk("B"), "C": mk("C")}
        order = ["R", "B", "C"] if pos == 0 else ["B", "R", "C"]
        for t in order:
            ids[t] = client.onevent(callback=cbs[t], device="D1")
        # exactly one event: the value of D1/V1/E1 changes, the state does not
        m = set_message("Text", "D1", "V1", "Ok", [child_for("Text", "one", "E1", "changed")])
        try:
            client.process_message(m)
        except Exception:
            return verdict(False, "process_message raised")
        first = list(log)
        tgt = "R" if victim == "A" else victim
        want = []
        removed = False
        for t in order:
            if removed and t == tgt:
                continue
            want.append(t)
            if t == "R":
                removed = True
        if MODE.trace is not None:
            note("order", order, "victim", tgt, "log", log, "want (first event)", want)
        return verdict(first == want,
                       "removal during dispatch made a callback miss the event or run after its removal")
    return body


def conditions(tier):
    out = []
    thorough = tier == "thorough"
    out.append(Condition("dispatch/remove-during", make_condition(remove_during_dispatch(), 1, 4, 2),
                         about="a callback removes itself or a later callback while the event is dispatched", encodes=ENC, timeout=600))
    for layout, kinds in (("A", ("Text", "Switch")), ("B", ("BLOB", "Light"))):
        for kind in kinds:
            for op in ("set", "def"):
                out.append(Condition(f"chain/{layout}/{op}{kind}", make_condition(events_step(layout, op, kind, "chain"), 3, 8, 1),
                                     about=f"every event raised by one {op}{kind}Vector equals the change of the mirror (old/new from snapshots)",
                                     encodes=ENC, timeout=900))
                if op == "def" and kf_open(SIG_DEF_CHAIN):
                    out.append(Condition(f"chainx/{layout}/{op}{kind}", make_condition(events_step(layout, op, kind, "chain-lenient"), 3, 8, 1),
                                         about=f"{op}{kind}Vector: all required events present with the right new value, extras only "
                                               f"re-announce the mirror's value (the recorded finding's class carved out)",
                                         encodes=ENC, timeout=900))
        out.append(Condition(f"chain/{layout}/delProperty", make_condition(events_step(layout, "del", None, "chain"), 3, 4, 1),
                             about="delProperty raises no value/state events", encodes=ENC, timeout=600))
    out.append(Condition("filter/A/setText", make_condition(events_step("A", "set", "Text", "filter"), 3, 10, 1),
                         about="one callback with a symbolic filter sees exactly the matching events", encodes=ENC, timeout=1800))
    out.append(Condition("filter/A/defSwitch", make_condition(events_step("A", "def", "Switch", "filter"), 3, 10, 1),
                         about="one callback with a symbolic filter sees exactly the matching events", encodes=ENC, timeout=1800))
    out.append(Condition("raise/A/setText", make_condition(events_step("A", "set", "Text", "raise"), 3, 8, 1),
                         about="a raising callback registered first does not starve the recorder", encodes=ENC, timeout=900))
    out.append(Condition("raise/B/setLight", make_condition(events_step("B", "set", "Light", "raise"), 3, 8, 1),
                         about="a raising callback registered first does not starve the recorder", encodes=ENC, timeout=900))
    out.append(Condition("remove/A/setText+setText", make_condition(events_step("A", "set", "Text", "remove", ("set", "Text")), 4, 16, 2),
                         about="removal by id or by criteria before / between / after two messages", encodes=ENC, timeout=2400,
                         tiers=("thorough",)))
    out.append(Condition("remove/A/setSwitch", make_condition(events_step("A", "set", "Switch", "remove"), 3, 12, 2),
                         about="removal by id or by criteria before / after one message", encodes=ENC, timeout=1800))
    if thorough:
        out.append(Condition("chain2/A/setText+defText", make_condition(events_step("A", "set", "Text", "chain", ("def", "Text")), 4, 14, 1),
                             about="update then redefinition: the chain continues across the redefinition", encodes=ENC, timeout=2400))
        out.append(Condition("chain2/A/del+defText", make_condition(events_step("A", "del", None, "chain", ("def", "Text")), 4, 12, 1),
                             about="deletion then definition", encodes=ENC, timeout=2400))
    return [c for c in out if tier in c.tiers]


def signature(cond_name, args, detail):
    parts = cond_name.split("/")
    if parts[0] in ("chain", "chain2", "raise") and "def" in parts[-1]:
        return SIG_DEF_CHAIN
    return "C16:" + parts[0] + ":" + parts[-1]
