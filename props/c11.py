"""C11 -- garbage on the wire cannot hang, crash or bloat the receiver, and is skipped.

enc: all of indi.transport.buffer.Buffer (real, incl. StringIO).

Safety part -- arbitrary oracle: the buffer content is an arbitrary symbolic
string, the threshold an arbitrary integer or disabled, and what expat says
about each prefix is a table of symbolic bits, so a verdict holds for whatever
expat does on whatever text.  Asserted: process() terminates (watchdog in the
stubs plus strictly shrinking data between rounds), raises nothing, hands the
consumer only objects the oracle accepted as messages (never None), leaves
data_len <= T when the threshold is enabled.  Two rounds (content, then an
appended symbolic piece) make the claim inductive over pieces: the state
between rounds is just the retained text, which is symbolic.

Liveness part -- ground-truth oracle: junk without '<' around valid messages
neither loses nor delays them; after a truncated element the following
messages are delivered once the threshold has been exceeded.
"""
from __future__ import annotations

from props.bufferlib import ArbitraryOracle, GroundTruthOracle, make_buffer, real_tags, str_eq
from props.c02 import draw_msg, feed_and_check, concretize
from props.common import Condition, Draw, NoProgress, Reject, make_condition, verdict, note, MODE, kf_open

ENC = ("indi.transport.buffer.Buffer.append", "indi.transport.buffer.Buffer.data", "indi.transport.buffer.Buffer.data_len",
       "indi.transport.buffer.Buffer._cleanup_buffer", "indi.transport.buffer.Buffer._cleanup_beginning",
       "indi.transport.buffer.Buffer._find_message_in_buffer", "indi.transport.buffer.Buffer.process")
BOUNDS = {
    "quick": "safety: retained text <= 4 symbolic characters (any code point) + appended piece <= 2, both tag lists, threshold "
             "symbolic in [0,6] or disabled, arbitrary accept/reject table; liveness: junk <= 2 characters without '<', messages of 4 "
             "characters, truncation at every position, threshold symbolic",
    "thorough": "safety with text <= 5 + piece <= 2",
}
OUTSIDE = ("texts longer than the bound; what real expat accepts among junk that imitates elements (comments, CDATA, PIs) is covered "
           "by the safety part only, where the oracle is arbitrary")
ASSUMPTIONS = ["F4 a document never ends in '>>'", "F5 nothing shorter than 4 characters is a document",
               "liveness: F1-F6 as in C02", "tags {a,b} stand for the message tags in half of the conditions"]


def safety(maxlen, piecelen, tags_kind, mode, tlo=0, thi=6):
    def body(d: Draw):
        tags = ["a", "b"] if tags_kind == "ab" else real_tags()
        text = d.str(maxlen, "text")
        piece = d.str(piecelen, "piece")
        n = maxlen + piecelen + 1
        wf = [d.bool(f"wf{i}") if 4 <= i < n else False for i in range(n)]
        # an accepted document is a message or not: one more bit per length
        # would square the paths; a second table is used only in `notmsg`
        msg = [True] * n
        if mode == "disabled":
            T = None
        else:
            T = d.int(tlo, thi, "threshold")
        if MODE.real:
            return verdict(*real_safety([text, piece], T))
        oracle = ArbitraryOracle(wf, msg, limit=80)
        buf = make_buffer(oracle, tags, T)
        got = []

        def cb(m):
            oracle.wd.tick()
            got.append(m)
        for chunk in (text, piece):
            buf.append(chunk)
            before = buf.data_len
            try:
                buf.process(cb)
            except NoProgress:
                return verdict(False, "process() does not terminate")
            except Exception:
                return verdict(False, "process() raised")
            if T is not None and buf.data_len > T:
                return verdict(False, "more than the threshold is retained")
            if buf.data_len > before:
                return verdict(False, "the buffer grew during process()")
        for m in got:
            if m is None:
                return verdict(False, "callback called with None")
            ok = False
            for a in oracle.accepted:
                if a is m:
                    ok = True
            if not ok:
                return verdict(False, "something other than an accepted message was delivered")
        return verdict(True)
    return body


def notmsg(maxlen, mode):
    """A well-formed document that is not a protocol message is never delivered
    and does not stop the scan (both bit tables symbolic, short text)."""
    def body(d: Draw):
        text = d.str(maxlen, "text")
        n = maxlen + 1
        wf = [d.bool(f"wf{i}") if 4 <= i < n else False for i in range(n)]
        msg = [d.bool(f"msg{i}") if 4 <= i < n else False for i in range(n)]
        T = None if mode == "disabled" else d.int(0, 6, "threshold")
        if MODE.real:
            return verdict(*real_safety([text], T))
        oracle = ArbitraryOracle(wf, msg, limit=80)
        buf = make_buffer(oracle, ["a", "b"], T)
        got = []

        def cb(m):
            oracle.wd.tick()
            got.append(m)
        buf.append(text)
        try:
            buf.process(cb)
        except NoProgress:
            return verdict(False, "process() does not terminate")
        except Exception:
            return verdict(False, "process() raised")
        for m in got:
            if m is None or not any(a is m for a in oracle.accepted):
                return verdict(False, "a non-message was delivered")
        return verdict(T is None or buf.data_len <= T, "more than the threshold is retained")
    return body


def junk_around(mode, where, lo=0, hi=12):
    """junk0 m1 junk1 m2 with junk free of '<': same assertion as C02."""
    def body(d: Draw):
        m1, m2 = draw_msg(d, 4), draw_msg(d, 4)
        j = d.str(2, "junk")
        for ch in j:
            if ch == "<":
                raise Reject()
        if where == "before":
            stream = j + m1 + "\n" + m2 + "\n"
            ends = [len(j) + 4, len(j) + 9]
        else:
            stream = m1 + j + m2 + "\n"
            ends = [4, 8 + len(j)]
        n = len(stream)
        n = concretize(n, 9, 12)
        T = None if mode == "disabled" else d.int(4, 12, "threshold")
        if lo > n:
            raise Reject()
        c1 = concretize(d.int(lo, min(hi, n), "cut"), lo, min(hi, n))
        if MODE.real:
            from props.c02 import real_two
            parts = [j, m1, "\n", m2, "\n"] if where == "before" else [m1, j, m2, "\n"]
            return verdict(*real_two(parts, [c1], T, [4, 4]))
        oracle = GroundTruthOracle([m1, m2], limit=80)
        buf = make_buffer(oracle, ["a", "b"], T)
        canon = [0, 0 if str_eq(m1, m2) else 1]
        ok, why = feed_and_check(buf, stream, [c1], ends, 2, oracle, [True, True], canon, n)
        if MODE.trace is not None:
            note("stream", stream, "cut", c1, "T", T, why)
        return verdict(ok, why)
    return body


def truncated(mode):
    """strict-prefix(m1) m2 filler...: m2 is delivered by the time the retained
    text has exceeded the threshold (threshold enabled)."""
    def body(d: Draw):
        m1, m2 = draw_msg(d, 4), draw_msg(d, 4)
        k = d.int(1, 3, "cut-in-m1")
        k = concretize(k, 1, 3)
        T = None if mode == "disabled" else d.int(4, 8, "threshold")
        if T is None and kf_open("C11:threshold-disabled:truncated-element-never-skipped"):
            pass
        if MODE.real:
            return verdict(*real_truncated(m1, m2, k, T))
        oracle = GroundTruthOracle([m1, m2], limit=200)
        buf = make_buffer(oracle, ["a", "b"], T)
        got = []

        def cb(m):
            oracle.wd.tick()
            got.append(m)
        stream = m1[:k] + m2 + "\n"
        # F6: the truncated head followed by m2 contains no other message
        buf.append(stream)
        try:
            buf.process(cb)
            # enough further data: harmless filler beyond the threshold
            for _ in range(10):
                buf.append("\n")
                buf.process(cb)
        except NoProgress:
            return verdict(False, "process() does not terminate")
        idx = [t.index for t in got]
        want = 0 if str_eq(m1, m2) else 1
        if MODE.trace is not None:
            note("stream", stream, "T", T, "delivered", idx)
        return verdict(want in idx, "a valid message after a truncated element is never delivered")
    return body


def real_safety(chunks, T):
    """The same safety assertions on the real Buffer with real expat."""
    import signal
    from props.bufferlib import restore_buffer_module
    restore_buffer_module()
    import indi.transport.buffer as B
    from indi.message import IndiMessage
    buf = B.Buffer()
    buf.max_buffer_size_before_frontal_cleanup = T
    got = []

    class _Hang(Exception):
        pass

    def on_alarm(*a):
        raise _Hang()
    signal.signal(signal.SIGALRM, on_alarm)
    signal.alarm(10)
    try:
        for ch in chunks:
            buf.append(ch)
            buf.process(got.append)
            if T is not None and buf.data_len > T:
                signal.alarm(0)
                return False, "more than the threshold is retained"
        signal.alarm(0)
    except _Hang:
        return False, "process() does not terminate (real Buffer, real expat)"
    except Exception as e:
        signal.alarm(0)
        return False, "process() raised " + repr(e)
    note("real chunks", chunks, "T", T, "delivered", [type(g).__name__ for g in got])
    if any(not isinstance(g, IndiMessage) for g in got):
        return False, "something other than a protocol message was delivered"
    return True, ""


def real_truncated(m1, m2, k, T):
    import signal
    from props.bufferlib import restore_buffer_module, real_part
    restore_buffer_module()
    import indi.transport.buffer as B
    r1, r2 = real_part(m1), real_part(m2)
    cut = 1 if k == 1 else (len(r1) - 1 if k == 3 else len(r1) // 2)
    stream = r1[:cut] + r2 + "\n"
    buf = B.Buffer()
    buf.max_buffer_size_before_frontal_cleanup = None if T is None else len(r2) + (T - 4)
    got = []

    class _Hang(Exception):
        pass

    def on_alarm(*a):
        raise _Hang()
    signal.signal(signal.SIGALRM, on_alarm)
    signal.alarm(20)
    try:
        buf.append(stream)
        buf.process(got.append)
        for _ in range(40):
            buf.append("\n" * 100)
            buf.process(got.append)
        signal.alarm(0)
    except _Hang:
        return False, "process() does not terminate (real Buffer, real expat)"
    note("real stream", stream, "threshold", buf.max_buffer_size_before_frontal_cleanup, "delivered", len(got),
         "retained", buf.data_len)
    if not got:
        return False, "a valid message after a truncated element is never delivered"
    return True, ""


def conditions(tier):
    out = []
    thorough = tier == "thorough"
    L, P = (5, 2) if thorough else (4, 2)
    for tags_kind in ("ab", "real"):
        out.append(Condition(f"safety/{tags_kind}/disabled", make_condition(safety(L, P, tags_kind, "disabled"), 2, 1, L + P + 1),
                             about=f"arbitrary text <= {L} + piece <= {P}, arbitrary parser verdicts, threshold disabled, tags {tags_kind}",
                             encodes=ENC, bounds=f"text<={L}, piece<={P}", timeout=2400))
        # threshold mode forks on every relation between T and the retained
        # length (measured: 2 300 paths / 800 s as one condition): split by T,
        # and the appended piece is one character in the quick tier
        Pq = P if thorough else 1
        for tlo, thi in ((0, 1), (2, 3), (4, 4), (5, 6)):
            out.append(Condition(f"safety/{tags_kind}/threshold/T={tlo}-{thi}",
                                 make_condition(safety(L, Pq, tags_kind, "threshold", tlo, thi), 2, 1, L + Pq + 1),
                                 about=f"arbitrary text <= {L} + piece <= {Pq}, arbitrary parser verdicts, threshold in {tlo}..{thi}, tags {tags_kind}",
                                 encodes=ENC, bounds=f"text<={L}, piece<={Pq}", timeout=2400))
    for mode in ("disabled", "threshold"):
        out.append(Condition(f"notmsg/{mode}", make_condition(notmsg(5, mode), 1, 1, 6),
                             about="well-formed documents that are not messages", encodes=ENC, bounds="text<=5", timeout=900))
        for where in ("before", "between"):
            for lo, hi in ((0, 3), (4, 7), (8, 12)):
                out.append(Condition(f"junk/{where}/{mode}/cut={lo}-{hi}", make_condition(junk_around(mode, where, lo, hi), 3, 2, 0),
                                     about=f"junk without '<' {where} two valid messages, one symbolic cut in {lo}..{hi}", encodes=ENC,
                                     bounds="junk<=2, messages of 4", timeout=1500))
    out.append(Condition("truncated/threshold", make_condition(truncated("threshold"), 2, 2, 0),
                         about="truncated element then a valid message, threshold enabled", encodes=ENC, timeout=900))
    out.append(Condition("truncated/disabled", make_condition(truncated("disabled"), 2, 1, 0),
                         about="truncated element then a valid message, threshold disabled (BLOB connections)", encodes=ENC,
                         timeout=900))
    return out


def validate_stubs():
    from props.bufferlib import validate_xml_facts
    return validate_xml_facts()


def signature(cond_name, args, detail):
    tr = " ".join((detail or {}).get("trace", []))
    if cond_name == "truncated/disabled":
        return "C11:threshold-disabled:truncated-element-never-skipped"
    if "does not terminate" in tr:
        return "C11:no-termination"
    return "C11:" + cond_name.split("/")[0]
