"""C13 -- the parser accepts only protocol-conformant messages.

enc: IndiMessage.from_xml, IndiMessagePart.from_xml, every message/part
constructor, checks.dictionary, checks.children, checks.number (number syntax on
a concrete pool here; the language inclusion over all strings is the SMT part).

An element tree (TreeET) with a concrete tag and child count.  Free attributes
are unbounded symbolic strings.  One symbolic *focus* selects the systematic
perturbation of the property's quantifier: an attribute missing, a constrained
attribute replaced by an arbitrary (unbounded symbolic) string, a child of
symbolic kind (every part tag or an unknown one), a child attribute missing, a
child text replaced by arbitrary padded text or absent.  Everything outside
the focus is nominal (valid vocabulary member) -- a sum of perturbations, not a
product: the product did not finish (measured: >20 min per vector kind).
Asserted: from_xml raises, or the message is conformant by the DTD table
written in the harness.
"""
from __future__ import annotations

from props.common import (MSG_SPECS, PART_SPECS, VECTOR_KINDS, PLAIN_KINDS, O, R, WS_POOL, Condition, Draw,
                          HarnessError, Reject, SymText, TElement, install_tree_et, draw_core, make_condition,
                          msg_class, part_class, verdict, library_message_classes, note, xml_ok, MODE)

ENC = ("indi.message.base.IndiMessage.from_xml", "indi.message.base.IndiMessagePart.from_xml",
       "indi.message.base.IndiMessagePart._all_subclasses", "indi.message.base.IndiMessage.tag_name",
       "indi.message.checks.dictionary", "indi.message.checks.children", "indi.message.checks.number",
       "indi.message.*.__init__")
BOUNDS = {
    "quick": "attribute and text strings unbounded (text: first/last character printable ASCII, pads from a pool of 5 whitespace "
             "strings); 0..2 children; one perturbation (focus) at a time; number texts from a concrete pool of 12 spellings",
    "thorough": "as quick with 0..3 children and, for the small kinds, two simultaneous perturbations",
}
OUTSIDE = ("more than one (quick) / two (thorough) simultaneous perturbations; number syntax over all strings (SMT part / C10); "
           "what expat accepts as an element (the statement starts from an element)")
ASSUMPTIONS = ["TreeET has the element-tree API contract of xml.etree (validated on a concrete corpus each run)",
               "SymText: str.strip() contract for text = whitespace + core + whitespace",
               "an absent number text is not a number value and is left unconstrained"]

NUMBER_POOL = ("1", "-0.5", "12.25", "1:30", "-1:30:15.5", ".5", "abc", "1:3", "--1", "1e5", "1 x", "0x10")
NUMBER_OK = ("1", "-0.5", "12.25", "1:30", "-1:30:15.5", ".5")

PART_TAGS = ["defText", "defNumber", "defSwitch", "defLight", "defBLOB",
             "oneText", "oneNumber", "oneSwitch", "oneLight", "oneBLOB", "bogus"]


def tag_of(kind):
    return kind[:1].lower() + kind[1:]


def kind_of(tag):
    return tag[:1].upper() + tag[1:]


def is_vocab(k):
    return k not in ("s", "t") and k[0] not in ("1",)


def is_number(k):
    return k not in ("s", "t") and k[0] == "1"


def conformant_part(p, child_kind):
    if type(p) is not part_class(child_kind):
        return False
    for name, req, kind in PART_SPECS[child_kind]:
        v = getattr(p, name, None)
        if is_number(kind):
            if v is None:
                continue  # absent number text: unconstrained (see ASSUMPTIONS)
            if v not in NUMBER_OK:
                return False
            continue
        if is_vocab(kind):
            if v is None:
                return False
            ok = False
            for member in kind:
                if v == member:
                    ok = True
            if not ok:
                return False
            continue
        if req == R and v is None:
            return False
    return True


def conformant(m, kind):
    if type(m) is not msg_class(kind):
        return False
    fields, child = MSG_SPECS[kind]
    for name, req, k in fields:
        v = getattr(m, name, None)
        if req == R and v is None:
            return False
        if is_vocab(k) and v is not None:
            ok = False
            for member in k:
                if v == member:
                    ok = True
            if not ok:
                return False
    if child:
        kids = getattr(m, "children", None)
        if kids is None:
            return False
        for c in kids:
            if not conformant_part(c, child):
                return False
    return True


def sym_text(d: Draw):
    """Arbitrary padded text: whitespace pads around an unbounded core.  Under
    the SymText model the pads only matter when the core is empty (is the text
    truthy at all?), so only then are they symbolic; otherwise they are fixed
    non-empty pads -- forking on them multiplied the paths by 25 for nothing."""
    core = draw_core(d)
    if len(core) == 0:
        return SymText(d.choice(WS_POOL, "lpad"), core, "")
    return SymText("\n  ", core, " ")


def nominal(kind_field, name):
    if kind_field == "t":
        return "txt"
    if kind_field == "s":
        return None  # caller draws a symbolic string
    return kind_field[len(name) % len(kind_field)]


def build_child(d: Draw, tag, focus, i):
    """focus: None | ('child-attr-missing', i, name) | ('child-text', i)."""
    e = TElement(tag)
    if tag == "bogus":
        e.attrib["name"] = d.str(None, "cname")
        return e
    spec = PART_SPECS[kind_of(tag)]
    for name, req, k in spec:
        if name == "value":
            if focus == ("child-text", i):
                if is_number(k):
                    e.text = SymText(d.choice(WS_POOL, "lpad"), d.choice(NUMBER_POOL, "cnum"), "")
                else:
                    e.text = sym_text(d)
                if d.bool("ctext-absent"):
                    e.text = None
            else:
                e.text = SymText("", nominal(k, name), "")
            continue
        if focus == ("child-attr-missing", i, name):
            continue
        e.attrib[name] = d.str(None, "c" + name)
    return e


def foci(kind, nchildren):
    fields, child = MSG_SPECS.get(kind, ([("device", O, "s"), ("name", O, "s")], None))
    out = [("none",)]
    for name, req, k in fields:
        if name == "value":
            out.append(("root-text",))
            continue
        out.append(("root-attr-missing", name))
        if is_vocab(k):
            out.append(("root-vocab-arbitrary", name))
    for i in range(nchildren):
        out.append(("child-kind", i))
        if child:
            for name, req, k in PART_SPECS[child]:
                if name == "value":
                    out.append(("child-text", i))
                else:
                    out.append(("child-attr-missing", i, name))
    return out


def build_root(d: Draw, kind, nchildren, focus_list):
    tag = tag_of(kind)
    root = TElement(tag)
    fields, child = MSG_SPECS.get(kind, ([("device", O, "s"), ("name", O, "s")], None))
    for name, req, k in fields:
        if name == "value":
            if ("root-text",) in focus_list:
                root.text = sym_text(d)
                if d.bool("text-absent"):
                    root.text = None
            else:
                root.text = SymText("", nominal(k, name), "")
            continue
        if ("root-attr-missing", name) in focus_list:
            continue
        if is_vocab(k) and ("root-vocab-arbitrary", name) not in focus_list:
            root.attrib[name] = nominal(k, name)
        else:
            root.attrib[name] = d.str(None, name)
    for i in range(nchildren):
        if ("child-kind", i) in focus_list or child is None:
            ctag = d.choice(PART_TAGS, "ckind")
        else:
            ctag = tag_of(child)
        cf = None
        for f in focus_list:
            if f[0] in ("child-attr-missing", "child-text") and f[1] == i:
                cf = f
        root.append(build_child(d, ctag, cf, i))
    return root


def parse_case(kind, nchildren, double=False):
    """kind: DTD element name or 'Bogus'."""
    F = foci(kind, nchildren)

    def body(d: Draw):
        install_tree_et()
        import indi.message  # noqa: registers every class
        from indi.message.base import IndiMessage
        focus_list = [d.choice(F, "focus")]
        if double:
            focus_list.append(d.choice(F, "focus2"))
        root = build_root(d, kind, nchildren, focus_list)
        if MODE.real:
            root = _real_element(root)
        try:
            m = IndiMessage.from_xml(root)
        except HarnessError:
            raise
        except Exception as e:
            if MODE.trace is not None:  # never repr() a symbolic value: it forks per character
                note("focus", focus_list, "rejected", repr(e)[:200])
            return verdict(True)
        if kind not in MSG_SPECS:
            return verdict(False, "an unknown element was accepted")
        if MODE.trace is not None:
            note("focus", focus_list, "accepted", type(m).__name__,
                 {k: (v if not isinstance(v, (list, tuple)) else [(type(c).__name__, vars(c)) for c in v])
                  for k, v in vars(m).items()})
        return verdict(conformant(m, kind), "accepted message is not conformant")
    return body


def _real_element(t):
    import xml.etree.ElementTree as RET

    def conv(t):
        e = RET.Element(t.tag, dict(t.attrib))
        e.text = t.text.plain() if isinstance(t.text, SymText) else t.text
        for c in t:
            e.append(conv(c))
        return e

    def strings(t):
        yield from t.attrib.values()
        yield t.text.plain() if isinstance(t.text, SymText) else t.text
        for c in t:
            yield from strings(c)
    e = conv(t)
    if all(xml_ok(v) for v in strings(t)):
        try:
            return RET.fromstring(RET.tostring(e))   # through real text and expat
        except Exception:
            return e
    return e


def conditions(tier):
    out = []
    thorough = tier == "thorough"
    for k in PLAIN_KINDS + ["Bogus"]:
        out.append(Condition(f"parse/{k}/0", make_condition(parse_case(k, 0), 8, 5, 2),
                             about=f"<{tag_of(k)}>: each attribute missing / each constrained field arbitrary / text arbitrary or absent",
                             encodes=ENC, bounds="one perturbation", timeout=300))
        if thorough:
            out.append(Condition(f"parse2/{k}/0", make_condition(parse_case(k, 0, True), 8, 6, 2),
                                 about=f"<{tag_of(k)}>: two simultaneous perturbations", encodes=ENC,
                                 bounds="two perturbations", timeout=600))
    out.append(Condition("parse/GetProperties/1", make_condition(parse_case("GetProperties", 1), 18, 6, 2),
                         about="a childless kind given a child of any kind", encodes=ENC, timeout=300))
    for k in VECTOR_KINDS:
        for n in ((0, 1, 2, 3) if thorough else (0, 1, 2)):
            out.append(Condition(f"parse/{k}/{n}", make_condition(parse_case(k, n), 14 + 7 * n, 6, 2),
                                 about=f"<{tag_of(k)}> with {n} children: every single-point perturbation incl. a child of any kind",
                                 encodes=ENC, bounds=f"{n} children, one perturbation", timeout=600))
        if thorough:
            out.append(Condition(f"parse2/{k}/1", make_condition(parse_case(k, 1, True), 22, 8, 3),
                                 about=f"<{tag_of(k)}> with 1 child: two simultaneous perturbations", encodes=ENC,
                                 bounds="1 child, two perturbations", timeout=1200))
    return out


def extra_checks():
    """Number syntax over ALL strings (not the pool): the validator's language,
    read from the AST of checks.number, is inside the INDI number grammar --
    regex inclusion decided by z3 (SMT engine, shared with C10's Q5)."""
    import os
    from smt import numfmt as N
    from props import c10
    src_root = os.environ.get("INDIPY_SRC", "/repo")
    run = c10.Run(src_root, "quick")
    try:
        src = N.load(src_root)
        pats, validator = c10.validator_language(src["number"])
        st, wit = run.lang_included(validator, c10.indi_grammar(), "validator inside grammar")
    except N.Unsupported as e:
        return [dict(name="number-syntax/inclusion", status="inconclusive", detail="translator: " + str(e), queries=run.queries, solver_s=run.solver_s)]
    if st == "holds":
        return [dict(name="number-syntax/inclusion", status="holds", detail=f"L({len(pats)} validator regexes) inside L(INDI number grammar): unsat",
                     queries=run.queries, solver_s=run.solver_s)]
    if st == "witness":
        values, checks = c10.real_funcs(src_root)
        try:
            checks.number(wit)
        except ValueError:
            return [dict(name="number-syntax/inclusion", status="inconclusive", detail=f"witness {wit!r} does not reproduce",
                         queries=run.queries, solver_s=run.solver_s)]
        return [dict(name="number-syntax/inclusion", status="violated", signature="C13:number-syntax:validator-accepts-non-number",
                     detail=f"checks.number accepts {wit!r}, which is not an INDI number", record=dict(text=wit),
                     queries=run.queries, solver_s=run.solver_s)]
    return [dict(name="number-syntax/inclusion", status="inconclusive", detail="solver unknown", queries=run.queries, solver_s=run.solver_s)]


def preflight():
    names = {c.__name__ for c in library_message_classes()}
    missing = names - set(MSG_SPECS)
    return [f"message class {m} is not in the harness DTD table" for m in sorted(missing)]


def validate_stubs():
    out = []
    from props import c03
    out += c03.validate_stubs()          # tree wire against ET.tostring / expat
    return out


def signature(cond_name, args, detail):
    tr = " ".join((detail or {}).get("trace", []))
    if "an unknown element was accepted" in tr:
        return "C13:unknown-element-accepted"
    return "C13:nonconformant-message-accepted"
