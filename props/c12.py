"""C12 -- no client message can take a driver, a connection or the server down.

enc: Driver.message_from_client, Vector.from_new_message, every
set_value_from_message / check_value / check_value_type, values.str_to_num (call
site), BLOB.from_base64, Router.process_message; on the VLoop model:
server.tcp.ConnectionHandler.handler_func / wait_for_messages / close and
server.tty.ConnectionHandler.handle / wait_for_messages / close with the real
Buffer and real expat.

Direct-router variant: the hostile fields are symbolic -- device / property /
element names by index over a universe with unknown, empty and other-kind
members, switch text an unbounded symbolic string, text values symbolic, number /
base64 / size texts from pools of valid and invalid spellings, 0..2 children
incl. duplicates.  Transport variant: a concrete representative of every fault
catalogue entry at a symbolic position of a session.
Asserted: nothing escapes message handling; only validly named elements with
valid values change; the connection stays registered, its writer open, and a
following valid getProperties on it is answered; other clients are not disturbed.
"""
from __future__ import annotations

from fractions import Fraction

from props.common import Condition, Draw, NoProgress, Reject, make_condition, verdict, note, MODE, part_class
from props.driverlib import rich_driver_classes, vector_kind
from props import vloop
from props.streamlib import FakeReader, FakeTextOut, FakeWriter, never_future_support

ENC = ("indi.device.driver.Driver.message_from_client", "indi.device.properties.instance.vectors.Vector.from_new_message",
       "indi.device.properties.instance.elements.*.set_value_from_message", "indi.device.properties.instance.elements.*.check_value",
       "indi.device.properties.instance.elements.Element.check_value_type", "indi.device.values.str_to_num",
       "indi.device.values.BLOB.from_base64", "indi.routing.router.Router.process_message",
       "indi.transport.server.tcp.ConnectionHandler.*", "indi.transport.server.tty.ConnectionHandler.*")
BOUNDS = {"quick": "every new*Vector kind x device {this, other, none, unknown} x property {each of 6 vectors, unknown, empty} x 0..2 children "
                   "with element {valid names, unknown} and value pools (switch text unbounded symbolic); transport: 14 catalogue entries x 3 positions x TCP/TTY",
          "thorough": "as quick"}
OUTSIDE = "malformed XML (C11); resource exhaustion; messages from peers that are devices"
ASSUMPTIONS = ["for a partly applicable message both 'apply the valid children' and 'ignore the whole message' are accepted",
               "numbers / base64 / sizes come from pools of spellings (str_to_num and base64 are C-level)"]

DEVICES = ("DEV", "OTHER", None, "NOPE")
PROPS = ("TXT", "SW", "NUM", "LI", "BLOB", "ANY", "NOPE", "")
ELEMENTS = {"TXT": ("A", "B"), "SW": ("S0", "S1", "S2"), "NUM": ("N", "M", "S"), "LI": ("L0", "L1"), "BLOB": ("X", "Y"), "ANY": ("P", "Q")}
NUMBER_TEXTS = ("5", "2.5", "1:30", "abc", "")
B64_TEXTS = ("AAEC", "!!!!", "AAE", None)       # 3 bytes, invalid alphabet, bad padding, absent
SIZES = ("3", "0", "abc")


def snapshot(drivers):
    s = {}
    for d in drivers:
        for vn, vec in d._vectors.items():
            for en, el in vec._elements_by_name.items():
                v = el._value
                if v is not None and not isinstance(v, (str, int, float)):
                    v = (v.binary, v.format)
                s[(d.name, vn, en)] = v
            s[(d.name, vn, "#state")] = vec._state
    return s


def valid_value(kind, fmt, value, size=None):
    """(is_valid, stored_value) by the INDI rules, independent of the code."""
    if kind == "Text":
        return True, value
    if kind == "Switch":
        return value in ("On", "Off"), value
    if kind == "Number":
        # INDI: any number form is valid for any number property, whatever its format
        from props.c10 import indi_denote
        if value is None:
            return False, None
        den = indi_denote(value)
        if den is None:
            return False, None
        return True, ("number", den)
    if kind == "BLOB":
        import base64
        import binascii
        try:
            raw = base64.b64decode(value or "", validate=False)
        except (binascii.Error, ValueError):
            return False, None
        try:
            if int(size) != len(raw):
                return False, None
        except (TypeError, ValueError):
            return False, None
        return True, (raw, ".bin")
    return False, None


OWN = {"Text": ("TXT", ("A", "B", "ZZ")), "Switch": ("SW", ("S0", "S1", "ZZ")), "Number": ("NUM", ("N", "M", "ZZ")),
       "BLOB": ("BLOB", ("X", "Y", "ZZ"))}


def build_child(d: Draw, kind, i, narrow=False):
    """A oneXxx child of the message kind with hostile-or-valid fields."""
    P = part_class(f"One{kind}")
    names = OWN[kind][1] if narrow else ("A", "S1", "N", "X", "ZZ")
    ename = d.choice(names, f"element{i}")
    if kind == "Text":
        # the setter compares old and new text: two different symbolic strings
        # need the length bound (unbounded: never exhausts -- measured, >20 min)
        return P(name=ename, value=d.str(1, f"text{i}")), None
    if kind == "Switch":
        # arbitrary text must go through the constructor's vocabulary check
        # first; what reaches a driver is On/Off (other texts are C13's subject)
        return P(name=ename, value="On" if d.bool(f"on{i}") else "Off"), None
    if kind == "Number":
        txt = d.choice(NUMBER_TEXTS, f"number{i}")
        try:
            return P(name=ename, value=txt), None
        except Exception:
            raise Reject()            # not a parsable message (C13): never reaches a driver
    if narrow and i >= 1:
        txt, size = "AAEC", "3"        # second child: valid payload, symbolic element name only
    else:
        txt = d.choice(B64_TEXTS, f"b64-{i}")
        size = d.choice(SIZES, f"size{i}")
    return P(name=ename, value=txt, size=size, format=".bin"), size


def direct(kind, nchildren):
    def body(d: Draw):
        from indi.routing.router import Router
        from indi.routing import Client
        from indi import message
        Rich, Other, Mid, Base = rich_driver_classes()
        router = Router()
        drv = Rich(router=router)
        oth = Other(router=router)
        got_a, got_b = [], []

        class Rec(Client):
            def __init__(self, sink):
                self.sink = sink

            def message_from_device(self, m):
                self.sink.append(m)
        sender, bystander = Rec(got_a), Rec(got_b)
        router.register_client(sender)
        router.register_client(bystander)
        if nchildren >= 2:
            # unknown / mismatching addressing is covered with 0 and 1 children;
            # two symbolic children go to the vector of their own kind (the full
            # product did not finish: >1 000 paths in 180 s)
            dev, prop = "DEV", OWN[kind][0]
        elif kind == "BLOB":
            # (base64 x size x element) already gives 60 combinations per target
            dev = d.choice(("DEV", "NOPE", None), "device")
            prop = d.choice(("BLOB", "TXT", "NOPE"), "property")
        elif kind == "Number":
            dev = d.choice(DEVICES, "device")
            prop = d.choice(("NUM", "TXT", "SW", "NOPE", ""), "property")
        else:
            dev = d.choice(DEVICES, "device")
            prop = d.choice(PROPS, "property")
        kids, sizes = [], []
        for i in range(nchildren):
            c, size = build_child(d, kind, i, narrow=nchildren >= 2)
            kids.append(c)
            sizes.append(size)
        Msg = getattr(message, f"New{kind}Vector")
        msg = Msg(device=dev, name=prop, children=tuple(kids))
        before = snapshot((drv, oth))
        try:
            router.process_message(msg, sender=sender)
        except Exception as e:
            if MODE.trace is not None:
                note("escaped", repr(e), "device", dev, "property", prop, [(c.name, c.value) for c in kids])
            return verdict(False, "an exception escaped message handling")
        after = snapshot((drv, oth))
        # ---- which elements may / must have changed
        allowed = {}
        for target in (drv, oth):
            if dev is not None and dev != target.name:
                continue
            vec = target._vectors.get(prop)
            if vec is None or vector_kind(vec) != kind:
                continue
            for c, size in zip(kids, sizes):
                el = vec._elements_by_name.get(c.name)
                if el is None:
                    continue
                fmt = getattr(el._definition, "format", "")
                ok, val = valid_value(kind, fmt, c.value, size)
                key = (target.name, prop, c.name)
                if ok:
                    allowed.setdefault(key, []).append(val)
        for key in before:
            if before[key] == after[key]:
                continue
            if key in allowed:
                if after[key] in allowed[key]:
                    continue
                if kind == "Number" and any(isinstance(a, tuple) and a[0] == "number" and abs(Fraction(after[key]) - a[1]) < Fraction(1, 10 ** 9)
                                            for a in allowed[key]):
                    continue
                if kind == "Switch" and after[key] in ("On", "Off"):
                    continue      # the switch rule may override a write (C09 governs that)
                return verdict(False, f"{key} took a value that was not sent")
            # switch rules may turn other switches of the same vector off
            if key[1] in ("SW",) and (key[0], key[1]) in {(k[0], k[1]) for k in allowed} and key[2] != "#state":
                continue
            if MODE.trace is not None:
                note("changed", key, before[key], after[key], "device", dev, "property", prop, [(c.name, c.value) for c in kids])
            return verdict(False, "state changed that the message did not validly name")
        # fully valid single-child messages must be applied
        if nchildren == 1 and len(allowed) == 1:
            key = list(allowed)[0]
            a0 = allowed[key][0]
            applied = (abs(Fraction(after[key]) - a0[1]) < Fraction(1, 10 ** 9)) if (isinstance(a0, tuple) and a0[0] == "number") else after[key] == a0
            if not applied and key[1] != "SW":
                return verdict(False, "a valid write was not applied")
        # ---- still serving: a valid request afterwards is answered
        got_a.clear()
        try:
            router.process_message(message.GetProperties(version="1.7", device="DEV", name="TXT"), sender=sender)
        except Exception:
            return verdict(False, "the driver no longer answers after the hostile message")
        if len([m for m in got_a if type(m).__name__ == "DefTextVector"]) != 1:
            return verdict(False, "the driver no longer answers after the hostile message")
        return verdict(True)
    return body


def catalogue():
    """Concrete representatives of the fault catalogue (well-formed XML)."""
    from indi import message
    from indi.message import one_parts as op
    T, S, N, B = message.NewTextVector, message.NewSwitchVector, message.NewNumberVector, message.NewBLOBVector
    return [
        ("unknown-device", T(device="NOPE", name="TXT", children=(op.OneText(name="A", value="x"),))),
        ("unknown-property", T(device="DEV", name="NOPE", children=(op.OneText(name="A", value="x"),))),
        ("unknown-element", T(device="DEV", name="TXT", children=(op.OneText(name="ZZ", value="x"),))),
        ("kind-mismatch", T(device="DEV", name="SW", children=(op.OneText(name="S1", value="x"),))),
        ("kind-mismatch-number", N(device="DEV", name="TXT", children=(op.OneNumber(name="A", value="1"),))),
        # (a number text that passes the message validator is a valid INDI number for
        # every format since the parser fix: there is no "unparsable number" entry)
        ("bad-base64", B(device="DEV", name="BLOB", children=(op.OneBLOB(name="X", size="3", format=".bin", value="!!!"),))),
        ("wrong-size", B(device="DEV", name="BLOB", children=(op.OneBLOB(name="X", size="99", format=".bin", value="AAEC"),))),
        ("non-numeric-size", B(device="DEV", name="BLOB", children=(op.OneBLOB(name="X", size="big", format=".bin", value="AAEC"),))),
        ("no-children", S(device="DEV", name="SW")),
        ("duplicate-children", T(device="DEV", name="TXT", children=(op.OneText(name="A", value="1"), op.OneText(name="A", value="2")))),
        ("def-from-client", message.DefTextVector(device="DEV", name="TXT", state="Ok", perm="rw",
                                                  children=(message.def_parts.DefText(name="A", value="evil"),))),
        ("set-from-client", message.SetTextVector(device="DEV", name="TXT", state="Alert", children=(op.OneText(name="A", value="evil"),))),
        ("nameless-getProperties", message.GetProperties(version="1.7", name="TXT")),
    ]


def transport(which):
    def body(d: Draw):
        loop, va = vloop.install_for_mode()
        never_future_support(va, loop)
        from indi.routing.router import Router
        from indi import message
        from indi.transport.server.tcp import ConnectionHandler as Tcp
        from indi.transport.server.tty import ConnectionHandler as Tty
        Tcp.connections = []
        Rich, Other, Mid, Base = rich_driver_classes()
        router = Router()
        drv = Rich(router=router)
        cat = catalogue()
        label, hostile = d.choice(cat, "catalogue-entry")
        position = d.int(0, 2, "position")
        valid = [message.GetProperties(version="1.7", device="DEV", name="SW"),
                 message.NewTextVector(device="DEV", name="TXT", children=(message.one_parts.OneText(name="B", value="ok"),))]
        session = valid[:position] + [hostile] + valid[position:]
        session.append(message.GetProperties(version="1.7", device="DEV", name="LI"))     # must still be answered
        before = snapshot((drv,))
        if which == "tcp":
            data = [m.to_string() for m in session]
            w = FakeWriter(va, "victim")
            reader = FakeReader(va, data + [b""], delay=2)
            # the connection stays open after the session: EOF only far in the future
            reader.script = data
            reader_tail = FakeReader(va, [], delay=10_000)

            class Chain:
                async def read(self, n):
                    if reader.script:
                        return await reader.read(n)
                    return await reader_tail.read(n)
            loop.create_task(Tcp.handler(router)(Chain(), w))
            bw = FakeWriter(va, "bystander")
            loop.create_task(Tcp.handler(router)(FakeReader(va, [], delay=10_000), bw))
            loop.run_until_idle(40)
            out = b"".join(w.chunks)
            alive = (not w.closed) and any(getattr(c, "writer", None) is w for c in router.clients)
            answered = b"defLightVector" in out
            by_out = b"".join(bw.chunks)
        else:
            data = [m.to_string().decode("latin1") for m in session]
            out_stream = FakeTextOut(va, [])
            reader = FakeReader(va, list(data), delay=2)
            tail = FakeReader(va, [], delay=10_000)

            class Chain:
                async def readline(self):
                    if reader.script:
                        return await reader.readline()
                    return await tail.readline()
            h = Tty(router, Chain(), out_stream)
            loop.create_task(h.handle())
            loop.run_until_idle(40)
            out = "".join(out_stream.chunks).encode("latin1")
            alive = h in router.clients
            answered = b"defLightVector" in out
            by_out = b""
        after = snapshot((drv,))
        if MODE.trace is not None:
            note("entry", label, "position", position, "alive", alive, "answered", answered)
        if not alive:
            return verdict(False, "the sending connection was closed by a hostile but well-formed message")
        if not answered:
            return verdict(False, "a valid request after the hostile message was not answered")
        for key in before:
            if before[key] != after[key] and key not in (("DEV", "TXT", "B"), ("DEV", "TXT", "A")):
                return verdict(False, "state changed that the session did not validly name")
        if after[("DEV", "TXT", "A")] not in (before[("DEV", "TXT", "A")], "1", "2"):
            return verdict(False, "a message kind a client should not send changed device state")
        return verdict(True)
    return body


def conditions(tier):
    out = []
    for kind in ("Text", "Switch", "Number", "BLOB"):
        for n in (0, 1, 2):
            out.append(Condition(f"direct/{kind}/{n}", make_condition(direct(kind, n), 2, 8, 2),
                                 about=f"new{kind}Vector with {n} children, symbolic addressing and values, straight into the router",
                                 encodes=ENC, timeout=1800))
    for which in ("tcp", "tty"):
        out.append(Condition(f"transport/{which}", make_condition(transport(which), 0, 2, 0),
                             about=f"every catalogue entry at every position of a session on the {which} handler (real framing, real expat)",
                             encodes=ENC, timeout=1800))
    return out


def validate_stubs():
    from props import c17
    out = list(c17.validate_stubs())
    from props import c03
    out += c03.validate_stubs()          # tree wire against ET.tostring / expat
    return out


def signature(cond_name, args, detail):
    tr = " ".join((detail or {}).get("trace", []))
    if "escaped" in tr or "closed by a hostile" in tr:
        return "C12:exception-escapes-message-handling"
    return "C12:" + cond_name
