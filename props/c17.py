"""C17 -- waiting for an event returns the first match or times out, whatever the timing.

enc: BaseClient.waitforevent (with its inner cb / poll / timeout_check),
onevent, rmonevent, trigger_event, _CallbackConfig.accepts_event -- the real
coroutines, driven by the VLoop model of the event loop on a virtual clock.

Symbolic: the arrival instants of up to three events as UNBOUNDED non-negative
integers (paths are orderings; inside an ordering the solver covers every
instant), whether each event matches, the timeout (none or a positive
instant), polling delay/interval.  Asserted: the wait completes with the first
matching event that arrives before the timeout, at its arrival instant;
otherwise with the timeout exception at the timeout instant; exactly one of
the two; getProperties are sent at delay + i*interval strictly before
completion (a tick at the completion instant may or may not be sent); no
callback stays registered.  Exact ties event = timeout are excluded as in the
quantifier.
"""
from __future__ import annotations

from props.clientlib import child_for, def_message, recording_client
from props.common import Condition, Draw, NoProgress, Reject, make_condition, verdict, note, MODE
from props import vloop

ENC = ("indi.client.client.BaseClient.waitforevent", "indi.client.client.BaseClient.onevent",
       "indi.client.client.BaseClient.rmonevent", "indi.client.client.BaseClient.trigger_event",
       "indi.client.client._CallbackConfig.accepts_event")
BOUNDS = {"quick": "1..3 events with unbounded symbolic arrival instants (also several in one loop iteration), symbolic match bits, timeout "
                   "none or symbolic, polling off or with delay/interval in 1..3 and at most 4 ticks before the horizon; condition kinds expect / "
                   "initial / check x value / state events; 1-2 concurrent waits",
          "thorough": "as quick with 3 events in every condition and 2 concurrent waits with independent timeouts"}
OUTSIDE = "exact ties between an event and the timeout instant; cancellation of the waiting task; real wall-clock timing"
ASSUMPTIONS = ["VLoop models the asyncio ordering guarantees (validated against the real loop on micro-scenarios every run)"]


def setup_client():
    client = recording_client()
    client.process_message(def_message("Text", "D1", "V1", "Ok", [child_for("Text", "def", "E1", "init")]))
    client.process_message(def_message("Text", "D1", "V2", "Ok", [child_for("Text", "def", "E1", "other")]))
    client.sent.clear()
    return client


def make_event(client, etype, matching: bool, i: int, vec="V1"):
    from indi.client import events as ev
    v = client["D1"][vec]
    if etype == "value":
        return ev.ValueUpdate(v["E1"], "old", "WANT" if matching else f"x{i}")
    return ev.StateUpdate(v, "Ok", "Alert" if matching else "Busy")


def wait_kwargs(cond_kind, etype):
    from indi.client import events as ev
    kw = dict(device="D1", vector="V1")
    want = "WANT" if etype == "value" else "Alert"
    if cond_kind == "expect":
        kw["expect"] = want
    elif cond_kind == "initial":
        # "departure from an initial value": non-matching events carry the initial value
        kw["initial"] = "INIT" if etype == "value" else "Busy"
    else:
        kw["check"] = lambda e: (getattr(e, "new_value", None) == want) or (getattr(e, "new_state", None) == want)
    kw["event_type"] = ev.ValueUpdate if etype == "value" else ev.StateUpdate
    return kw


def one_wait(cond_kind, etype, nevents, polling, same_iteration):
    def body(d: Draw):
        loop, va = vloop.install_for_mode()
        client = setup_client()
        from indi.client import events as ev
        # arrival instants: non-decreasing, unbounded
        ts, ms = [], []
        prev = 0
        for i in range(nevents):
            t = d.rawint(f"t{i}")
            if t < prev:
                raise Reject()
            if same_iteration and i > 0:
                t = prev                      # delivered by the same Buffer.process call
            ts.append(t)
            prev = t
            ms.append(d.bool(f"match{i}"))
        has_timeout = d.bool("has-timeout")
        T = d.rawint("timeout")
        if has_timeout:
            if T <= 0:
                raise Reject()
            for t in ts:
                if t == T:
                    raise Reject()            # exact ties are outside the quantifier
        if MODE.real and not polling:
            comp = vloop.compress_instants(ts + ([T] if has_timeout else []) + [0])
            ts = comp[:nevents]
            if has_timeout:
                T = comp[nevents]
        kw = wait_kwargs(cond_kind, etype)
        if cond_kind == "initial":
            evs = []
            for i, m in enumerate(ms):
                e = make_event(client, etype, m, i)
                if not m:
                    if etype == "value":
                        e.new_value = "INIT"
                    else:
                        e.new_state = "Busy"
                evs.append(e)
        else:
            evs = [make_event(client, etype, m, i) for i, m in enumerate(ms)]
        if polling:
            delay = d.int(1, 3, "polling-delay")
            interval = d.int(1, 3, "polling-interval")
            kw.update(polling_enabled=True, polling_delay=delay, polling_interval=interval)
        else:
            kw.update(polling_enabled=False)
        if has_timeout:
            kw["timeout"] = T
        n_before = len(client.callbacks)
        outcome = {}

        async def waiter():
            try:
                r = await client.waitforevent(**kw)
                outcome["event"] = r
            except Exception as e:
                outcome["exc"] = e
            outcome["at"] = loop.now
            outcome["callbacks"] = len(client.callbacks)

        sent_at = []
        orig_send = client.send_message
        client.send_message = lambda m: sent_at.append(loop.now)
        loop.create_task(waiter())
        if same_iteration:
            def deliver_all():
                for e in evs:
                    client.trigger_event(e)
            loop.call_at(ts[0], deliver_all)
        else:
            for t, e in zip(ts, evs):
                loop.call_at(t, client.trigger_event, e)
        # horizon: beyond everything that can matter
        horizon = 0
        for t in ts:
            if t > horizon:
                horizon = t
        if has_timeout and T > horizon:
            horizon = T
        if polling:
            # bound the unrolling of the polling loop (stated bound: <= 4 ticks)
            if horizon > delay + 3 * interval:
                raise Reject()
        try:
            loop.run_until_idle(horizon + 5)
        except NoProgress:
            return verdict(False, "the loop never becomes idle")
        if loop.task_errors:
            return verdict(False, "a task died: " + repr(loop.task_errors[0][1]))
        # ---- reference
        first = None
        for i in range(nevents):
            if ms[i] and (not has_timeout or ts[i] < T):
                first = i
                break
        if MODE.trace is not None:
            note("instants", ts, "match", ms, "timeout", T if has_timeout else None, "outcome",
                 {k: (type(v).__name__ if k in ("event", "exc") else v) for k, v in outcome.items()}, "polls", sent_at)
        if first is not None:
            if outcome.get("event") is not evs[first]:
                return verdict(False, "the wait did not return the first matching event")
            if outcome.get("at") != ts[first]:
                return verdict(False, "the wait completed at the wrong instant")
            done_at = ts[first]
        elif has_timeout:
            if "exc" not in outcome or "event" in outcome:
                return verdict(False, "no timeout was raised although no matching event arrived in time")
            if outcome.get("at") != T:
                return verdict(False, "the timeout was raised at the wrong instant")
            done_at = T
        else:
            if outcome:
                return verdict(False, "the wait completed although nothing matched and no timeout was set")
            return verdict(len(client.callbacks) == n_before + 1, "callback bookkeeping")
        if outcome.get("callbacks") != n_before or len(client.callbacks) != n_before:
            return verdict(False, "a callback is still registered after the wait")
        if polling:
            k = 0
            while delay + k * interval < done_at:
                tick = delay + k * interval
                if tick not in sent_at:
                    return verdict(False, "a polling tick before completion was not sent")
                k += 1
            for s in sent_at:
                if s > done_at:
                    return verdict(False, "polling continued after completion")
                ok = False
                j = 0
                while delay + j * interval <= done_at:
                    if s == delay + j * interval:
                        ok = True
                    j += 1
                if not ok:
                    return verdict(False, "a getProperties was sent off the polling grid")
            if len(sent_at) > k + 1:
                return verdict(False, "too many polling requests")
        elif sent_at:
            return verdict(False, "getProperties sent although polling is disabled")
        return verdict(True)
    return body


def two_waits():
    """Two concurrent waits on different vectors do not disturb each other."""
    def body(d: Draw):
        loop, va = vloop.install_for_mode()
        client = setup_client()
        from indi.client import events as ev
        t1, t2 = d.rawint("t1"), d.rawint("t2")
        if t1 < 0 or t2 < 0:
            raise Reject()
        T = d.rawint("timeout")
        if T <= 0 or T == t1 or T == t2:
            raise Reject()
        if MODE.real:
            t1, t2, T, _ = vloop.compress_instants([t1, t2, T, 0])
        e1 = make_event(client, "value", True, 1, "V1")
        e2 = make_event(client, "value", True, 2, "V2")
        out = {}

        async def w(tag, vec, timeout):
            try:
                r = await client.waitforevent(device="D1", vector=vec, expect="WANT", timeout=timeout, polling_enabled=False)
                out[tag] = ("event", r, loop.now)
            except Exception as e:
                out[tag] = ("timeout", None, loop.now)
        loop.create_task(w("a", "V1", T))
        loop.create_task(w("b", "V2", None))
        loop.call_at(t1, client.trigger_event, e1)
        loop.call_at(t2, client.trigger_event, e2)
        hz = T
        if t1 > hz:
            hz = t1
        if t2 > hz:
            hz = t2
        loop.run_until_idle(hz + 3)
        if loop.task_errors:
            return verdict(False, "a task died")
        ok = out.get("b") == ("event", e2, t2)
        if t1 < T:
            ok = ok and out.get("a") == ("event", e1, t1)
        else:
            ok = ok and out.get("a") == ("timeout", None, T)
        return verdict(ok and len(client.callbacks) == 0, "concurrent waits disturbed each other")
    return body


def same_filter():
    """Two waits with the SAME filter plus an application callback with that
    filter: completing one wait removes only its own callback."""
    def body(d: Draw):
        loop, va = vloop.install_for_mode()
        client = setup_client()
        from indi.client import events as ev
        t1, t2 = d.rawint("t1"), d.rawint("t2")
        if t1 < 0 or t2 <= t1:
            raise Reject()
        if MODE.real:
            t1, t2, _ = vloop.compress_instants([t1, t2, 0])
        seen = []
        client.onevent(callback=lambda e: seen.append(e), device="D1", vector="V1", event_type=ev.ValueUpdate)
        e1 = make_event(client, "value", True, 1, "V1")
        e2 = make_event(client, "value", True, 2, "V1")
        e2.new_value = "SECOND"
        out = {}

        async def w(tag, want):
            try:
                r = await client.waitforevent(device="D1", vector="V1", event_type=ev.ValueUpdate, expect=want, polling_enabled=False)
                out[tag] = (r, loop.now)
            except Exception as e:
                out[tag] = ("exc", repr(e))
        loop.create_task(w("a", "WANT"))
        loop.create_task(w("b", "SECOND"))
        loop.call_at(t1, client.trigger_event, e1)
        loop.call_at(t2, client.trigger_event, e2)
        loop.run_until_idle(t2 + 3)
        if loop.task_errors:
            return verdict(False, "a task died")
        ok = out.get("a") == (e1, t1) and out.get("b") == (e2, t2)
        ok = ok and len(seen) == 2 and len(client.callbacks) == 1
        if MODE.trace is not None:
            note("t", t1, t2, "out", {k: (type(v[0]).__name__, v[1]) for k, v in out.items()}, "app saw", len(seen), "callbacks", len(client.callbacks))
        return verdict(ok, "completing one wait disturbed another wait or an application callback with the same filter")
    return body


def conditions(tier):
    out = []
    thorough = tier == "thorough"
    out.append(Condition("concurrent/same-filter", make_condition(same_filter(), 0, 2, 0),
                         about="two waits and an application callback sharing one filter", encodes=ENC, timeout=600))
    for cond_kind in ("expect", "initial", "check"):
        for etype in ("value", "state"):
            n = 3 if thorough else (2 if (cond_kind, etype) != ("expect", "value") else 3)
            out.append(Condition(f"wait/{cond_kind}/{etype}/{n}ev", make_condition(one_wait(cond_kind, etype, n, False, False), 0, n + 1, n + 1),
                                 about=f"{n} events at unbounded symbolic instants, condition {cond_kind}, {etype} events, optional timeout, no polling",
                                 encodes=ENC, timeout=900))
    out.append(Condition("wait/expect/value/2ev-same-iteration", make_condition(one_wait("expect", "value", 2, False, True), 0, 3, 3),
                         about="two events delivered in one loop iteration (one Buffer.process call)", encodes=ENC, timeout=600))
    out.append(Condition("wait/expect/value/3ev-same-iteration", make_condition(one_wait("expect", "value", 3, False, True), 0, 4, 4),
                         about="three events delivered in one loop iteration", encodes=ENC, timeout=600))
    out.append(Condition("poll/expect/value/1ev", make_condition(one_wait("expect", "value", 1, True, False), 0, 4, 2),
                         about="polling with symbolic delay/interval, one event, optional timeout", encodes=ENC, timeout=1800))
    out.append(Condition("poll/expect/state/2ev", make_condition(one_wait("expect", "state", 2, True, False), 0, 5, 3),
                         about="polling with symbolic delay/interval, two events, optional timeout", encodes=ENC, timeout=2400,
                         tiers=("thorough",)))
    out.append(Condition("concurrent/2waits", make_condition(two_waits(), 0, 3, 0),
                         about="two concurrent waits, one with a timeout", encodes=ENC, timeout=900))
    return [c for c in out if tier in c.tiers]


def validate_stubs():
    """The model loop against the real asyncio loop on scheduling micro-scenarios."""
    import asyncio

    def scenario(aio, loop_time, run):
        trace = []

        async def sleeper(tag, d):
            await aio.sleep(d)
            trace.append((tag, loop_time()))

        async def locker(lock, tag, hold):
            async with lock:
                trace.append((tag + "-in", loop_time()))
                await aio.sleep(hold)
                trace.append((tag + "-out", loop_time()))

        async def waiter(evt, tag):
            await evt.wait()
            trace.append((tag, loop_time()))

        async def main():
            lock = aio.Lock()
            evt = aio.Event()
            ts = [aio.create_task(sleeper("s2", 2)), aio.create_task(sleeper("s1", 1)), aio.create_task(sleeper("s1b", 1)),
                  aio.create_task(locker(lock, "A", 2)), aio.create_task(locker(lock, "B", 1)), aio.create_task(locker(lock, "C", 0)),
                  aio.create_task(waiter(evt, "w1")), aio.create_task(waiter(evt, "w2"))]
            await aio.sleep(3)
            evt.set()
            trace.append(("set", loop_time()))
            await aio.sleep(5)
        run(main)
        return trace

    # model
    loop, va = vloop.install()
    t_model = scenario(va, lambda: loop.now, lambda m: (loop.create_task(m()), loop.run_until_idle()))
    vloop.uninstall()

    # the real asyncio loop on a virtual clock (exact, load-independent)
    class A:
        Lock, Event, sleep = asyncio.Lock, asyncio.Event, staticmethod(asyncio.sleep)

        @staticmethod
        def create_task(c):
            return asyncio.get_event_loop().create_task(c)
    real_loop = vloop.VirtualClockLoop()
    asyncio.set_event_loop(real_loop)

    def run(m):
        real_loop.run_until_complete(m())
    t_real = scenario(A, lambda: round(real_loop.time()), run)
    real_loop.close()
    return [{"what": "VLoop vs real asyncio: sleep order, Lock hand-over, Event wake-up (micro-scenario trace)", "ok": t_model == t_real,
             "detail": {"model": t_model, "real": t_real}}]


def signature(cond_name, args, detail):
    tr = " ".join((detail or {}).get("trace", []))
    if "first matching" in tr:
        return "C17:not-first-match"
    return "C17:" + cond_name.split("/")[0]
