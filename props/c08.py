"""C08 -- BLOB payloads arrive bit-exact in both directions and never stall a link.

(a) codec, enc: values.BLOB.*, instance.BLOB.to_set_message /
    set_value_from_message, client.BLOB.set_value_from_message / to_new_message,
    client.Vector.submit, OneBLOB, Router.process_message (policy), the
    library Client's blob_handshake -- over the tree-level wire (netlib).
    Symbolic: payload length (index into a concrete filler, real base64),
    format string (unbounded), client policy index.
(b) size boundaries, enc: Buffer.* with the ground-truth oracle.  Symbolic:
    message length L, read chunk size R, threshold T.
(c) no hang: Buffer.process under the arbitrary oracle (shared with C11).
"""
from __future__ import annotations

from props.bufferlib import GroundTruthOracle, make_buffer
from props.common import Condition, Draw, NoProgress, Reject, make_condition, verdict, note, MODE, kf_open
from props.c02 import concretize
from props import c11
from props.netlib import Net, library_client, single_conn_client

ENC = ("indi.device.values.BLOB", "indi.device.properties.instance.elements.BLOB.to_set_message",
       "indi.device.properties.instance.elements.BLOB.set_value_from_message",
       "indi.client.elements.BLOB.set_value_from_message", "indi.client.elements.Element.to_new_message",
       "indi.client.vectors.Vector.submit", "indi.message.one_parts.OneBLOB", "indi.routing.router.Router.process_message",
       "indi.client.client.Client.blob_handshake", "indi.transport.buffer.Buffer.process")
BOUNDS = {
    "quick": "(a) payload length 0..8 (symbolic index, concrete filler bytes, real base64), unbounded symbolic format string, 4 policies + "
             "the library's two-connection client; (b) message length 4..8, chunk size 1..9, threshold 4..7 / disabled, all symbolic; "
             "(c) arbitrary text <= 4 + piece, arbitrary parser",
    "thorough": "(a) payload length 0..16; (b) message length 4..10",
}
OUTSIDE = ("payload *contents* (carried by the stdlib base64 codec, not repository code; one symbolic byte through a pure-Python twin is "
           "planned, not built); megabyte payloads (the code uses lengths only in comparisons and slices; linear scaling is not claimed); sockets")
ASSUMPTIONS = ["tree wire contract (C03)", "ground-truth oracle F1-F6 (C02)",
               "the 1024-byte read size and the 2048-character threshold enter as symbolic R and T"]

POLICIES = (None, "Never", "Also", "Only")
FILLER = bytes((i * 37 + 11) % 256 for i in range(32))
_DRV = {}


def blob_driver(router):
    from indi.device import Driver, properties
    if "cls" not in _DRV:
        class BlobDriver(Driver):
            name = "CAM"
            main = properties.Group("MAIN", vectors=dict(
                img=properties.BLOBVector("IMG", elements=dict(blb=properties.BLOB("BLB"), aux=properties.BLOB("AUX"))),
                txt=properties.TextVector("TXT", elements=dict(t=properties.Text("T", default="x")))))
        _DRV["cls"] = BlobDriver
    return _DRV["cls"](router=router)


def download(client_kind, maxlen):
    def body(d: Draw):
        from indi.routing.router import Router
        from indi.device import values
        from indi.message import EnableBLOB
        net = Net()
        router = Router()
        drv = blob_driver(router)
        n = concretize(d.int(0, maxlen, "payload-length"), 0, maxlen)
        payload = FILLER[:n]
        fmt = d.str(None, "format")
        if client_kind == "library":
            client, ctrl, blob = library_client(net, router)
            client.handshake()
            policy = "library"
        else:
            client, conn = single_conn_client(net, router)
            client.handshake()
            policy = d.choice(POLICIES, "policy")
            if policy is not None:
                client.send_message(EnableBLOB(device="CAM", value=policy))
        if "CAM" not in client or "IMG" not in client["CAM"]:
            return verdict(False, "handshake did not define the BLOB vector")
        try:
            drv.main.img.blb.value = values.BLOB(payload, fmt)
        except Exception as e:
            if MODE.trace is not None:
                note("publishing raised", repr(e))
            return verdict(False, "publishing a BLOB raised")
        # a second publication: same or different bytes, ANOTHER format -- what the
        # client holds afterwards is the second BLOB
        if d.bool("publish-again"):
            n2 = n if d.bool("same-bytes") else (n + 1) % (maxlen + 1)
            payload = FILLER[:n2]
            n = n2
            fmt = ".second"      # concrete: concatenating onto the unbounded symbolic format multiplied the paths by 12
            try:
                drv.main.img.blb.value = values.BLOB(payload, fmt)
            except Exception:
                return verdict(False, "publishing a BLOB raised")
        el = client["CAM"]["IMG"]["BLB"]
        v = el.value
        if MODE.trace is not None:
            note("policy", policy, "n", n, "fmt", fmt, "received", type(v).__name__, "parse failures", len(net.parse_failures))
        if policy in ("library", "Also", "Only"):
            ok = isinstance(v, values.BLOB) and v.binary == payload and v.format == fmt and v.size == n and len(v) == n
            return verdict(ok, "the client that enabled BLOBs did not receive the payload intact")
        return verdict(not isinstance(v, values.BLOB), "a client that did not enable BLOBs received a payload")
    return body


def upload(client_kind, maxlen):
    def body(d: Draw):
        from indi.routing.router import Router
        from indi.device import values
        net = Net()
        router = Router()
        drv = blob_driver(router)
        n = concretize(d.int(0, maxlen, "payload-length"), 0, maxlen)
        payload = FILLER[:n]
        fmt = d.str(None, "format")
        if client_kind == "library":
            client, ctrl, blob = library_client(net, router)
        else:
            client, conn = single_conn_client(net, router)
        client.handshake()
        if "CAM" not in client or "IMG" not in client["CAM"]:
            return verdict(False, "handshake did not define the BLOB vector")
        vec = client["CAM"]["IMG"]
        try:
            vec["BLB"].value = values.BLOB(payload, fmt)
            vec.submit()
        except Exception as e:
            if MODE.trace is not None:
                note("upload raised", repr(e))
            return verdict(False, "uploading a BLOB raised")
        got = drv.main.img.blb._value
        other = drv.main.img.aux._value
        if MODE.trace is not None:
            note("n", n, "fmt", fmt, "driver has", type(got).__name__)
        ok = isinstance(got, values.BLOB) and got.binary == payload and got.format == fmt and got.size == n
        return verdict(ok and other is None, "the uploaded BLOB did not reach the driver intact")
    return body


def chunked(mode, maxlen):
    """One message of symbolic length L read in chunks of symbolic size R."""
    def body(d: Draw):
        L = concretize(d.int(4, maxlen, "length"), 4, maxlen)
        s = d.str(None, "msg")
        if len(s) != L or s[0] != "<" or s[1] != "a" or s[L - 1] != ">" or s[L - 2] == ">":
            raise Reject()
        R = concretize(d.int(1, maxlen + 1, "chunk"), 1, maxlen + 1)
        if mode == "disabled":
            T = None
        else:
            T = d.int(4, 7, "threshold")
            if L > T and R < L and kf_open("C08:server-buffer:fragmented-message-longer-than-threshold-destroyed"):
                # the recorded finding's class is carved out here and
                # re-examined by the `upload-beyond-threshold` condition
                raise Reject()
        if MODE.real:
            from props.c02 import real_two
            cuts = list(range(R, L, R))
            return verdict(*real_two([s, "\n"], cuts[:6], T, [L]))
        oracle = GroundTruthOracle([s], limit=120)
        buf = make_buffer(oracle, ["a", "b"], T)
        got = []

        def cb(m):
            oracle.wd.tick()
            got.append(m)
        stream = s + "\n"
        pos = 0
        try:
            while pos < L + 1:
                buf.append(stream[pos:pos + R])
                pos += R
                buf.process(cb)
                if pos < L and got:
                    return verdict(False, "delivered before it arrived")
        except NoProgress:
            return verdict(False, "process() does not terminate")
        if MODE.trace is not None:
            note("L", L, "R", R, "T", T, "delivered", len(got))
        return verdict(len(got) == 1 and got[0] is not None, "a fragmented message was not delivered intact")
    return body


def beyond_threshold():
    """The recorded finding's class: a message longer than the threshold read in
    chunks shorter than the message (every BLOB upload through the server-side
    buffer, whose threshold cannot be disabled)."""
    def body(d: Draw):
        L = concretize(d.int(6, 8, "length"), 6, 8)
        s = d.str(None, "msg")
        if len(s) != L or s[0] != "<" or s[1] != "a" or s[L - 1] != ">" or s[L - 2] == ">":
            raise Reject()
        T = 5
        R = 3
        for i in range(2, L - 1):
            if s[i] == "<" or s[i] == ">":
                raise Reject()
        if MODE.real:
            from props.c02 import real_two
            return verdict(*real_two([s, "\n"], list(range(R, L, R)), T, [L]))
        oracle = GroundTruthOracle([s], limit=120)
        buf = make_buffer(oracle, ["a", "b"], T)
        got = []

        def cb(m):
            oracle.wd.tick()
            got.append(m)
        stream = s + "\n"
        pos = 0
        while pos < L + 1:
            buf.append(stream[pos:pos + R])
            pos += R
            buf.process(cb)
        return verdict(len(got) == 1, "a fragmented message longer than the threshold is destroyed")
    return body


def conditions(tier):
    out = []
    thorough = tier == "thorough"
    N = 16 if thorough else 8
    for kind in ("library", "single"):
        out.append(Condition(f"download/{kind}", make_condition(download(kind, N), 1, 2, 2),
                             about=f"driver publishes a BLOB of symbolic length/format; {kind} client", encodes=ENC,
                             bounds=f"length 0..{N}", timeout=900))
        out.append(Condition(f"upload/{kind}", make_condition(upload(kind, N), 1, 1, 0),
                             about=f"{kind} client uploads a BLOB of symbolic length/format", encodes=ENC,
                             bounds=f"length 0..{N}", timeout=900))
    M = 10 if thorough else 8
    for mode in ("disabled", "threshold"):
        out.append(Condition(f"chunked/{mode}", make_condition(chunked(mode, M), 1, 3, 0),
                             about=f"one message of symbolic length read in chunks of symbolic size, threshold {mode}",
                             encodes=ENC, bounds=f"length 4..{M}", timeout=1800))
    out.append(Condition("upload-beyond-threshold", make_condition(beyond_threshold(), 1, 1, 0),
                         about="message longer than the (always enabled) server-side threshold, read in smaller chunks",
                         encodes=ENC, timeout=600))
    out.append(Condition("nohang/arbitrary", make_condition(c11.safety(4, 1, "ab", "disabled"), 2, 1, 6),
                         about="BLOB-mode buffer on arbitrary text with an arbitrary parser: terminates, never delivers None",
                         encodes=ENC, timeout=1800))
    out.append(Condition("nohang/partial-then-traffic", make_condition(c11.truncated("threshold"), 2, 2, 0),
                         about="a partial element does not block the traffic that follows it (threshold enabled)",
                         encodes=ENC, timeout=900))
    return out


def validate_stubs():
    from props.bufferlib import validate_xml_facts
    out = list(validate_xml_facts())
    from props import c03
    out += c03.validate_stubs()          # tree wire against ET.tostring / expat
    return out


def signature(cond_name, args, detail):
    if cond_name == "upload-beyond-threshold" or (cond_name.startswith("chunked/threshold")):
        return "C08:server-buffer:fragmented-message-longer-than-threshold-destroyed"
    return "C08:" + cond_name
