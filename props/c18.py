"""C18 -- every way a connection can end leaves the router clean and the others served.

enc: server.tcp.ConnectionHandler.__init__ / handler / handler_func /
wait_for_messages / message_from_client / close, server.tty.ConnectionHandler.
__init__ / handle / wait_for_messages / close, Router.register_client /
unregister_client / process_message -- the real coroutines on the VLoop model,
real framing and real expat on concrete session bytes.

Symbolic: the fault kind (index), the step of the session script at which it is
injected (index), which connection is hit, whether the victim had set a BLOB
policy.  Asserted after the loop is quiescent: the victim is in neither
Router.clients nor blob_routing nor ConnectionHandler.connections, its writer
is closed (TCP), later device traffic reaches every other connection and is not
attempted on the victim, and a fresh connection starts from the default policy.
"""
from __future__ import annotations

from props.common import Condition, Draw, NoProgress, Reject, make_condition, verdict, note, MODE
from props import vloop
from props.routerlib import make_message
from props.streamlib import FakeReader, FakeTextOut, FakeWriter, ReadError, never_future_support

ENC = ("indi.transport.server.tcp.ConnectionHandler.__init__", "indi.transport.server.tcp.ConnectionHandler.handler",
       "indi.transport.server.tcp.ConnectionHandler.wait_for_messages", "indi.transport.server.tcp.ConnectionHandler.close",
       "indi.transport.server.tcp.ConnectionHandler.message_from_client",
       "indi.transport.server.tty.ConnectionHandler.__init__", "indi.transport.server.tty.ConnectionHandler.handle",
       "indi.transport.server.tty.ConnectionHandler.wait_for_messages", "indi.transport.server.tty.ConnectionHandler.close",
       "indi.routing.router.Router.register_client", "indi.routing.router.Router.unregister_client",
       "indi.routing.router.Router.process_message", "indi.transport.buffer.Buffer.process")
BOUNDS = {"quick": "session of 3 client messages (getProperties, enableBLOB, newTextVector) + device traffic, 6 fault kinds at every step index "
                   "(symbolic), 1 bystander connection, both transports",
          "thorough": "2 bystanders, a second faulty connection"}
OUTSIDE = "real sockets; faults inside the event loop itself; more than 3 concurrent connections"
ASSUMPTIONS = ["VLoop ordering contract (validated against the real loop every run)", "fake streams with the public surface the handlers use"]

FAULTS = ("eof", "read-error", "eof-inside-message", "junk-then-eof", "handler-exception", "peer-write-error", "connection-reset")


def session_bytes():
    msgs = [make_message("GetProperties", None), make_message("EnableBLOB", "DEV"), make_message("NewTextVector", "DEV")]
    return [m.to_string() for m in msgs]


def script_with_fault(fault, step, as_text):
    """The victim's read script: `step` complete messages, then the fault."""
    data = session_bytes()
    conv = (lambda b: b.decode("latin1")) if as_text else (lambda b: b)
    items = [conv(x) for x in data[:step]]
    if fault == "eof":
        items.append(None)
    elif fault == "read-error":
        items.append(ReadError("connection reset"))
    elif fault == "connection-reset":
        items.append(ConnectionResetError("connection reset by peer"))
    elif fault == "eof-inside-message":
        nxt = data[step] if step < len(data) else data[0]
        items.append(conv(nxt[: len(nxt) // 2]))
        items.append(None)
    elif fault == "junk-then-eof":
        items.append(conv(b"\x00\xff<<>>&&& not xml at all >"))
        items.append(None)
    elif fault == "handler-exception":
        # a message whose handling raises inside the router (a device that fails)
        items.append(conv(make_message("NewSwitchVector", "BOOM").to_string()))
        items.append(None)
    elif fault == "peer-write-error":
        items.extend(conv(x) for x in data[step:])
        items.append(None)
    return items


class BoomDevice:
    """A device whose message handling raises (error while a message is handled)."""

    def __init__(self):
        from indi.routing import Device
        self.__class__ = type("BoomDevice", (Device,), dict(BoomDevice.__dict__))

    def accepts(self, device):
        return device == "BOOM"

    def message_from_client(self, message):
        raise RuntimeError("driver failure")


def tcp(nbystanders):
    def body(d: Draw):
        loop, va = vloop.install_for_mode()
        never_future_support(va, loop)
        from indi.transport.server.tcp import ConnectionHandler
        from indi.routing.router import Router
        from indi.routing import Device
        ConnectionHandler.connections = []
        router = Router()

        class Boom(Device):
            def accepts(self, device):
                return device == "BOOM"

            def message_from_client(self, message):
                raise RuntimeError("driver failure")

        class Dev(Device):
            def accepts(self, device):
                return device in (None, "DEV")

            def message_from_client(self, message):
                pass
        router.register_device(Boom())
        dev = Dev()
        router.register_device(dev)
        fault = d.choice(FAULTS, "fault")
        step = d.int(0, 3, "step")
        victim_writer = FakeWriter(va, "victim", fail_at=(0 if fault == "peer-write-error" else None))
        victim_reader = FakeReader(va, script_with_fault(fault, step, False))
        hf = ConnectionHandler.handler(router)
        loop.create_task(hf(victim_reader, victim_writer))
        by = []
        for i in range(nbystanders):
            w = FakeWriter(va, f"by{i}")
            # bystanders stay connected: their reader never delivers anything
            r = FakeReader(va, [b"", ], delay=10_000)
            loop.create_task(hf(r, w))
            by.append(w)
        # device traffic while the session runs and after it has ended
        early = make_message("SetTextVector", "DEV", "early")
        late = make_message("SetTextVector", "DEV", "late")
        loop.call_at(2, router.process_message, early, dev)
        loop.call_at(40, router.process_message, late, dev)
        try:
            loop.run_until_idle(60)
        except NoProgress:
            return verdict(False, "the loop never becomes idle")
        victims = [c for c in ConnectionHandler.connections if c.writer is victim_writer]
        in_router = [c for c in router.clients if getattr(c, "writer", None) is victim_writer]
        in_blob = [c for c in router.blob_routing if getattr(c, "writer", None) is victim_writer]
        ok, why = True, ""
        if victims or in_router or in_blob:
            ok, why = False, "the ended connection is still registered"
        elif not victim_writer.closed:
            ok, why = False, "the ended connection's writer was not closed"
        elif any(late.to_string() == ch for ch in victim_writer.chunks):
            ok, why = False, "device traffic was attempted on the ended connection"
        else:
            for w in by:
                data = b"".join(w.chunks)
                if early.to_string() not in data or late.to_string() not in data:
                    ok, why = False, "a bystander connection lost device traffic"
        if ok:
            # a peer that reconnects starts from the defaults
            w2 = FakeWriter(va, "again")
            loop.create_task(hf(FakeReader(va, [b""], delay=10_000), w2))
            blob = make_message("SetBLOBVector", "DEV", "x")
            loop.call_at(70, router.process_message, blob, dev)
            loop.call_at(71, router.process_message, make_message("SetTextVector", "DEV", "again"), dev)
            loop.run_until_idle(80)
            data = b"".join(w2.chunks)
            if blob.to_string() in data or b"again" not in data:
                ok, why = False, "a reconnecting peer did not start from the default BLOB policy"
        if MODE.trace is not None:
            note("fault", fault, "step", step, why, "errors", [repr(e) for _, e in loop.task_errors][:3])
        return verdict(ok, why)
    return body


def tcp_broken_writer_stays():
    """A peer whose writes fail but which stays connected (its reader never
    ends) must not cost any other connection a single message, wherever it sits
    in the registration order."""
    def body(d: Draw):
        loop, va = vloop.install_for_mode()
        never_future_support(va, loop)
        from indi.transport.server.tcp import ConnectionHandler
        from indi.routing.router import Router
        from indi.routing import Device
        ConnectionHandler.connections = []
        router = Router()

        class Dev(Device):
            def accepts(self, device):
                return device in (None, "DEV")

            def message_from_client(self, message):
                pass
        dev = Dev()
        router.register_device(dev)
        hf = ConnectionHandler.handler(router)
        pos = d.int(0, 2, "position-of-the-broken-peer")
        fail_at = d.int(0, 1, "failing-write")
        writers = []
        for i in range(3):
            w = FakeWriter(va, f"c{i}", fail_at=(fail_at if i == pos else None))
            loop.create_task(hf(FakeReader(va, [], delay=10_000), w))
            writers.append(w)
        msgs = [make_message("SetTextVector", "DEV", f"v{k}") for k in range(4)]
        for k, m in enumerate(msgs):
            loop.call_at(5 + 3 * k, router.process_message, m, dev)
        try:
            loop.run_until_idle(40)
        except NoProgress:
            return verdict(False, "the loop never becomes idle")
        for i, w in enumerate(writers):
            if i == pos:
                continue
            data = b"".join(w.chunks)
            for m in msgs:
                if m.to_string() not in data:
                    return verdict(False, "a healthy connection lost a message because a peer's writes fail")
        return verdict(True)
    return body


def tty():
    def body(d: Draw):
        loop, va = vloop.install_for_mode()
        never_future_support(va, loop)
        from indi.transport.server.tty import ConnectionHandler
        from indi.transport.server.tcp import ConnectionHandler as TcpHandler
        from indi.routing.router import Router
        from indi.routing import Device
        TcpHandler.connections = []
        router = Router()

        class Boom(Device):
            def accepts(self, device):
                return device == "BOOM"

            def message_from_client(self, message):
                raise RuntimeError("driver failure")

        class Dev(Device):
            def accepts(self, device):
                return device in (None, "DEV")

            def message_from_client(self, message):
                pass
        router.register_device(Boom())
        dev = Dev()
        router.register_device(dev)
        fault = d.choice(FAULTS[:5] + FAULTS[6:], "fault")
        step = d.int(0, 3, "step")
        out = FakeTextOut(va, [])
        h = ConnectionHandler(router, FakeReader(va, script_with_fault(fault, step, True)), out)
        loop.create_task(h.handle())
        byw = FakeWriter(va, "by")
        loop.create_task(TcpHandler.handler(router)(FakeReader(va, [b""], delay=10_000), byw))
        late = make_message("SetTextVector", "DEV", "late")
        loop.call_at(40, router.process_message, late, dev)
        try:
            loop.run_until_idle(60)
        except NoProgress:
            return verdict(False, "the loop never becomes idle")
        ok, why = True, ""
        if h in router.clients or h in router.blob_routing:
            ok, why = False, "the ended TTY connection is still registered"
        elif any("late" in c for c in out.chunks):
            ok, why = False, "device traffic was attempted on the ended TTY connection"
        elif late.to_string() not in b"".join(byw.chunks):
            ok, why = False, "a bystander connection lost device traffic"
        if MODE.trace is not None:
            note("fault", fault, "step", step, why)
        return verdict(ok, why)
    return body


def conditions(tier):
    out = []
    n = 2 if tier == "thorough" else 1
    out.append(Condition("tcp", make_condition(tcp(n), 0, 2, 0),
                         about="TCP handler: every fault kind at every step of the session, bystander(s) keep being served",
                         encodes=ENC, timeout=1800))
    out.append(Condition("tcp-broken-writer-stays", make_condition(tcp_broken_writer_stays(), 0, 2, 0),
                         about="a connected peer whose writes fail, at every position of the registration order", encodes=ENC, timeout=900))
    out.append(Condition("tty", make_condition(tty(), 0, 2, 0),
                         about="TTY handler: every fault kind at every step of the session", encodes=ENC, timeout=1800))
    return out


def validate_stubs():
    from props import c17
    return c17.validate_stubs()


def signature(cond_name, args, detail):
    return "C18:" + cond_name
