"""VLoop -- a pure-Python model of the asyncio event loop on a virtual clock
(DESIGN 4.3).  The repository's real coroutine functions run on it unchanged;
time is a number the harness may make symbolic, so paths are *orderings*.

Contract modelled (asyncio documentation): call_soon is FIFO; timers fire by
deadline, then by insertion; a task runs until it awaits something pending;
sleep(d) resumes one loop iteration after its deadline; Event.set wakes all
waiters (FIFO) on the next iteration; Lock is the CPython 3.12 algorithm (FIFO
waiters, hand-over on release).  A task that dies with an exception is
remembered and re-raised by run() unless the harness declared it expected.
"""
from __future__ import annotations

import asyncio as _real_asyncio
from typing import Any, Callable, List, Optional


class CancelledError(BaseException):
    pass


class VFuture:
    def __init__(self, loop: "VLoop"):
        self._loop = loop
        self._done = False
        self._result = None
        self._exc: Optional[BaseException] = None
        self._callbacks: List[Callable] = []

    def done(self):
        return self._done

    def result(self):
        if self._exc is not None:
            raise self._exc
        return self._result

    def set_result(self, r):
        if self._done:
            return
        self._done, self._result = True, r
        for cb in self._callbacks:
            self._loop.call_soon(cb, self)
        self._callbacks = []

    def set_exception(self, e):
        if self._done:
            return
        self._done, self._exc = True, e
        for cb in self._callbacks:
            self._loop.call_soon(cb, self)
        self._callbacks = []

    def add_done_callback(self, cb):
        if self._done:
            self._loop.call_soon(cb, self)
        else:
            self._callbacks.append(cb)

    def __await__(self):          # must be a generator function (DESIGN 4.3, trap 1)
        if not self._done:
            yield self
        return self.result()

    __iter__ = __await__


class VTask(VFuture):
    def __init__(self, loop, coro, name=None):
        super().__init__(loop)
        self._coro = coro
        self.name = name
        loop.call_soon(self._step)

    def _step(self, _fut=None):
        if self._done:
            return
        self._loop._current = self
        try:
            try:
                waited = self._coro.send(None)
            finally:
                self._loop._current = None
        except StopIteration as s:
            self.set_result(s.value)
            return
        except Exception as e:
            self._loop.task_errors.append((self, e))
            self.set_exception(e)
            return
        if isinstance(waited, VFuture):
            waited.add_done_callback(self._step)
        elif waited is None:
            self._loop.call_soon(self._step)
        else:
            raise AssertionError(f"harness: task awaited a foreign object {waited!r}")


class _Timer:
    def __init__(self, when, seq, fn, args):
        self.when, self.seq, self.fn, self.args = when, seq, fn, args
        self.cancelled = False

    def cancel(self):
        self.cancelled = True


class VLoop:
    def __init__(self, max_iterations=400):
        self.now = 0
        self.ready: List = []
        self.timers: List[_Timer] = []
        self.seq = 0
        self.task_errors: List = []
        self.iterations = 0
        self.max_iterations = max_iterations
        self._current = None
        self.tasks: List[VTask] = []

    # --- loop API used by the repository code
    def time(self):
        return self.now

    def call_soon(self, fn, *args):
        self.ready.append((fn, args))

    def call_at(self, when, fn, *args):
        self.seq += 1
        t = _Timer(when, self.seq, fn, args)
        self.timers.append(t)
        return t

    def call_later(self, delay, fn, *args):
        return self.call_at(self.now + delay, fn, *args)

    def create_future(self):
        return VFuture(self)

    def create_task(self, coro, name=None):
        t = VTask(self, coro, name)
        self.tasks.append(t)
        return t

    # --- driving
    def _pop_due(self):
        """Moves every timer whose deadline has been reached to the ready queue,
        by deadline then insertion."""
        due = [t for t in self.timers if not t.cancelled and t.when <= self.now]
        self.timers = [t for t in self.timers if not t.cancelled and not (t.when <= self.now)]
        # insertion sort by (when, seq); comparisons of symbolic instants fork
        ordered: List[_Timer] = []
        for t in due:
            i = len(ordered)
            while i > 0 and (ordered[i - 1].when > t.when or
                             (ordered[i - 1].when == t.when and ordered[i - 1].seq > t.seq)):
                i -= 1
            ordered.insert(i, t)
        for t in ordered:
            self.ready.append((t.fn, t.args))

    def run_once(self):
        self.iterations += 1
        if self.iterations > self.max_iterations:
            from props.common import NoProgress
            raise NoProgress("the model loop does not become idle")
        self._pop_due()
        batch, self.ready = self.ready, []
        for fn, args in batch:
            fn(*args)

    def run_until_idle(self, horizon=None):
        """Runs until nothing is ready and no timer is left (or the next timer
        lies beyond `horizon`)."""
        while True:
            if self.ready:
                self.run_once()
                continue
            live = [t for t in self.timers if not t.cancelled]
            if not live:
                return
            nxt = live[0].when
            for t in live[1:]:
                if t.when < nxt:
                    nxt = t.when
            if horizon is not None and nxt > horizon:
                return
            if nxt > self.now:
                self.now = nxt
            self.run_once()


class _Event:
    def __init__(self, va):
        self._va = va
        self._flag = False
        self._waiters: List[VFuture] = []

    def is_set(self):
        return self._flag

    def set(self):
        if not self._flag:
            self._flag = True
            for w in self._waiters:
                w.set_result(True)
            self._waiters = []

    def clear(self):
        self._flag = False

    async def wait(self):
        if self._flag:
            return True
        f = self._va.loop.create_future()
        self._waiters.append(f)
        await f
        return True


class _Lock:
    """asyncio.Lock of CPython 3.12."""

    def __init__(self, va):
        self._va = va
        self._locked = False
        self._waiters: List[VFuture] = []

    def locked(self):
        return self._locked

    async def acquire(self):
        if not self._locked and not self._waiters:
            self._locked = True
            return True
        f = self._va.loop.create_future()
        self._waiters.append(f)
        try:
            await f
        finally:
            if f in self._waiters:
                self._waiters.remove(f)
        self._locked = True
        return True

    def release(self):
        if not self._locked:
            raise RuntimeError("Lock is not acquired.")
        self._locked = False
        for w in self._waiters:
            if not w.done():
                w.set_result(True)
                break

    async def __aenter__(self):
        await self.acquire()
        return None

    async def __aexit__(self, *a):
        self.release()


class VAsyncio:
    """What the repository's modules see under the name `asyncio`."""

    CancelledError = CancelledError
    StreamReader = object
    StreamWriter = object

    def __init__(self, loop: VLoop):
        self.loop = loop

    def get_running_loop(self):
        return self.loop

    def get_event_loop(self):
        return self.loop

    def iscoroutinefunction(self, f):
        return _real_asyncio.iscoroutinefunction(f)

    def create_task(self, coro):
        return self.loop.create_task(coro)

    def sleep(self, delay, result=None):
        f = self.loop.create_future()
        self.loop.call_later(delay, f.set_result, result)
        return _await(f)

    def Event(self):
        return _Event(self)

    def Lock(self):
        return _Lock(self)


async def _await(f):
    return await f


MODULES = ("indi.client.client", "indi.device.events", "indi.transport.server.tcp", "indi.transport.server.tty",
           "indi.transport.client.tcp")


def install(loop: Optional[VLoop] = None, max_iterations=400):
    """Binds a fresh model loop under the name `asyncio` in the repository's
    modules (harness-side rebinding, no repository change)."""
    import importlib
    loop = loop or VLoop(max_iterations)
    va = VAsyncio(loop)
    for name in MODULES:
        m = importlib.import_module(name)
        m.asyncio = va
    return loop, va


def uninstall():
    import importlib
    for name in MODULES:
        m = importlib.import_module(name)
        m.asyncio = _real_asyncio


# ---------------------------------------------------------------------------
# Replay: the same harness code on the REAL asyncio loop (real Lock, Event,
# sleep, tasks), virtual instants scaled to wall-clock slots.

class VirtualClockLoop(_real_asyncio.SelectorEventLoop):
    """The real asyncio loop (real tasks, futures, Lock, Event, timers heap)
    whose clock is a counter: when nothing is ready it jumps to the next
    timer instead of sleeping, so replays are exact and load-independent."""

    def __init__(self):
        super().__init__()
        self._vt = 0.0

    def time(self):
        return self._vt

    def _run_once(self):
        if not self._ready and self._scheduled:
            live = [h for h in self._scheduled if not h._cancelled]
            if live:
                nxt = min(h._when for h in live)
                if nxt > self._vt:
                    self._vt = nxt
        super()._run_once()


class RealAdapter:
    SLOT = 1.0

    def __init__(self):
        self.loop = VirtualClockLoop()
        _real_asyncio.set_event_loop(self.loop)
        self.t0 = 0.0
        self.task_errors: List = []
        self.tasks: List = []

    @property
    def now(self):
        return round((self.loop.time() - self.t0) / self.SLOT)

    def time(self):
        return self.now

    def call_at(self, when, fn, *args):
        return self.loop.call_at(self.t0 + when * self.SLOT, fn, *args)

    def call_later(self, delay, fn, *args):
        return self.loop.call_later(delay * self.SLOT, fn, *args)

    def call_soon(self, fn, *args):
        return self.loop.call_soon(fn, *args)

    def create_task(self, coro, name=None):
        async def guarded():
            try:
                return await coro
            except Exception as e:
                self.task_errors.append((None, e))
                raise
        t = self.loop.create_task(guarded())
        self.tasks.append(t)
        return t

    def run_until_idle(self, horizon=None):
        h = 3 if horizon is None else horizon
        end = self.t0 + (h + 1) * self.SLOT

        async def idle():
            while self.loop.time() < end:
                await _real_asyncio.sleep(self.SLOT / 2)
        # pending tasks (connections that stay open) are left alone: the harness
        # inspects the state after this call, exactly as on the model loop
        self.loop.run_until_complete(idle())


class _ScaledAsyncio:
    """Real asyncio with sleep() durations scaled to slots (what the modules of
    the repository see in replay mode)."""

    def __init__(self, slot):
        self._slot = slot

    def __getattr__(self, name):
        return getattr(_real_asyncio, name)

    def sleep(self, delay, result=None):
        return _real_asyncio.sleep(delay * self._slot, result)


def install_for_mode(max_iterations=400):
    """Model loop for symbolic runs, the real asyncio loop for replays."""
    from vf.cond import MODE
    if not MODE.real:
        return install(None, max_iterations)
    import importlib
    ad = RealAdapter()
    sa = _ScaledAsyncio(ad.SLOT)
    for name in MODULES:
        importlib.import_module(name).asyncio = sa
    return ad, sa


def compress_instants(values):
    """Rank-preserving compression of instants for the replay (only their
    order and equalities matter when no absolute grid is involved)."""
    distinct = sorted(set(values))
    rank = {v: i for i, v in enumerate(distinct)}
    return [rank[v] for v in values]
