"""In-process model of a server with network clients over the tree-level wire.

Every message that crosses a connection is serialised by the real to_xml,
copied by the tree wire (props.common.clone -- the contract of
ET.tostring/expat, DESIGN 4.1) and parsed by the real from_xml, so integers
become strings, None attributes disappear and text is stripped exactly as on a
socket.  Framing and fragmentation are not modelled here (premise C02).
Delivery is synchronous: when a call returns, every in-flight message has been
delivered.
"""
from __future__ import annotations

from typing import Callable, List, Optional

from props.common import MODE, HarnessError, install_tree_et


class Net:
    """Holds the wire function; one per condition run."""

    def __init__(self):
        self.wire = install_tree_et()
        import indi.message  # noqa
        from indi.message.base import IndiMessage
        self.IndiMessage = IndiMessage
        self.log: List = []          # (direction, message) as sent, for the oracles
        self.parse_failures: List = []

    def transfer(self, msg):
        """What the peer's parser makes of msg; None if it cannot be parsed."""
        t = msg.to_xml()
        w = self.wire(t)
        try:
            return self.IndiMessage.from_xml(w)
        except HarnessError:
            raise
        except Exception as e:
            self.parse_failures.append((msg, e))
            return None


def server_conn_class():
    from indi.routing import Client

    class ServerConn(Client):
        """Server side of one client connection (what tcp.ConnectionHandler is
        to the router), without sockets."""

        def __init__(self, net: Net, router, label="conn"):
            self.net, self.router, self.label = net, router, label
            self.peer: Optional[Callable] = None
            self.sent: List = []
            router.register_client(self)

        def message_from_device(self, message):
            self.sent.append(message)
            self.net.log.append(("to-client", self.label, message))
            m = self.net.transfer(message)
            if m is not None and self.peer is not None:
                self.peer(m)

        def from_peer(self, message):
            self.net.log.append(("to-server", self.label, message))
            m = self.net.transfer(message)
            if m is not None:
                self.router.process_message(m, sender=self)

        def __repr__(self):
            return f"<ServerConn {self.label}>"

    return ServerConn


class _Handler:
    """Client side of a connection: what client.tcp.ConnectionHandler offers."""

    def __init__(self, conn):
        self.conn = conn

    def send_message(self, msg):
        self.conn.from_peer(msg)

    def close(self):
        pass


def single_conn_client(net: Net, router, label="c"):
    """A BaseClient on one connection (its BLOB policy is whatever it sends)."""
    from indi.client.client import BaseClient
    ServerConn = server_conn_class()
    conn = ServerConn(net, router, label)

    class OneConnClient(BaseClient):
        def send_message(self, msg):
            conn.from_peer(msg)

    c = OneConnClient()
    conn.peer = c.process_message
    return c, conn


def library_client(net: Net, router, label="lib"):
    """The library's network Client: control + BLOB connection."""
    from indi.client.client import Client
    ServerConn = server_conn_class()
    ctrl = ServerConn(net, router, label + "-ctrl")
    blob = ServerConn(net, router, label + "-blob")
    c = Client(None, None)
    c.control_connection_handler = _Handler(ctrl)
    c.blob_connection_handler = _Handler(blob)
    ctrl.peer = c.process_message
    blob.peer = c.process_message
    return c, ctrl, blob
