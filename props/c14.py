"""C14 -- driver event contract: Write, then default update and publication, then Change.

enc: events.on / attach_event_handlers / EventSource.raise_event /
EventSourceDefinition, Element.value getter+setter / set_value /
set_value_from_message / reset_value, Vector.from_new_message / to_set_message,
Driver.message_from_client / send_message -- on the VLoop model so that
coroutine handlers really become tasks.

Shape: handler configuration (how many plain / coroutine Write handlers, plain
/ coroutine Change handlers, plain Read handlers), entry point, element kind,
one or two driver instances.  Symbolic: old and new value (so "changed" is the
solver's decision), the veto bit, the vector's enabled bit.  Everything the
handlers and the router see goes into one ordered trace; the assertions are
read off the trace.
"""
from __future__ import annotations

from props.common import Condition, Draw, NoProgress, Reject, make_condition, verdict, note, MODE, kf_open
from props import vloop

ENC = ("indi.device.events.on", "indi.device.events.attach_event_handlers", "indi.device.events.EventSource.raise_event",
       "indi.device.events.EventSourceDefinition.attach_event_handler",
       "indi.device.properties.instance.elements.Element.value", "indi.device.properties.instance.elements.Element.set_value",
       "indi.device.properties.instance.elements.Element.set_value_from_message",
       "indi.device.properties.instance.vectors.Vector.from_new_message", "indi.device.properties.instance.vectors.Vector.to_set_message",
       "indi.device.driver.Driver.message_from_client", "indi.device.driver.Driver.send_message")
BOUNDS = {"quick": "handler configurations with <=1 handler per kind plus the 2-plain-Write and plain+coroutine ones; text and switch "
                   "elements; entry points client message / set_value() / assignment; symbolic old/new value (text len<=1), veto and enabled bits",
          "thorough": "all configurations with <=2 handlers per kind"}
OUTSIDE = "handlers that themselves write to elements; Read handlers that change the value during a write (they are observers here)"
ASSUMPTIONS = ["VLoop ordering contract", "in write scenarios Read handlers are observers; 'Change' concerns the written element only"]

SIG_SHARED = "C14:second-instance:handlers-shared-through-class-level-definitions"


def make_driver_class(cfg, trace, kind):
    """cfg = (plain_write, coro_write, plain_change, coro_change, plain_read).
    The class is created per path: attach_event_handlers() adds to the shared
    class-level definitions at every instantiation."""
    from indi.device import Driver, properties
    from indi.device.events import Change, Read, Write, on
    pw, cw, pc, cc, pr = cfg
    if kind == "text":
        vec = properties.TextVector("V", elements=dict(t=properties.Text("T", default="o"), u=properties.Text("U", default="u")))
    elif kind == "oneofmany":
        vec = properties.SwitchVector("V", rule="OneOfMany", elements=dict(t=properties.Switch("T"), u=properties.Switch("U")))
    else:
        vec = properties.SwitchVector("V", rule="AnyOfMany", elements=dict(t=properties.Switch("T"), u=properties.Switch("U")))

    class Drv(Driver):
        main = properties.Group("MAIN", vectors=dict(v=vec))
        veto = False

        def _log(self, what, e):
            trace.append((what, self.name, getattr(e, "new_value", None), getattr(e, "old_value", None),
                          self.main.v.t._value))

        if pw >= 1:
            @on(main.v.t, Write)
            def w_plain1(self, e):
                self._log("write-plain1", e)
                if self.veto:
                    e.prevent_default = True
        if pw >= 2:
            @on(main.v.t, Write)
            def w_plain2(self, e):
                self._log("write-plain2", e)
        if cw >= 1:
            @on(main.v.t, Write)
            async def w_coro1(self, e):
                self._log("write-coro1", e)
        if cw >= 2:
            @on(main.v.t, Write)
            async def w_coro2(self, e):
                self._log("write-coro2", e)
                e.prevent_default = True      # too late by contract: must have no effect
        if pc >= 1:
            @on(main.v.t, Change)
            def c_plain1(self, e):
                self._log("change-plain1", e)
        if pc >= 2:
            @on([main.v.t, main.v.u], Change)
            def c_plain2(self, e):
                self._log("change-plain2:" + e.element.name, e)
        if cc >= 1:
            @on(main.v.t, Change)
            async def c_coro1(self, e):
                self._log("change-coro1", e)
        if pr >= 1:
            @on(main.v.t, Read)
            def r_plain1(self, e):
                self._log("read-plain1", e)

    return Drv


def scenario(cfg, kind, entry, two_instances=False):
    def body(d: Draw):
        loop, va = vloop.install_for_mode()
        from indi.routing.router import Router
        from indi.routing import Client
        from indi import message
        from indi.message import one_parts
        trace = []
        router = Router()

        class Rec(Client):
            def message_from_device(self, m):
                vals = {c.name: c.value for c in getattr(m, "children", ())}
                trace.append(("published", type(m).__name__, vals.get("T"), None, None))
        router.register_client(Rec())
        Drv = make_driver_class(cfg, trace, kind)
        drv = Drv(name="DEV", router=router)
        if two_instances:
            other = Drv(name="DEV2", router=router)
        el = drv.main.v.t
        if kind == "text":
            old = d.str(1, "old")
            new = d.str(1, "new")
        else:
            old = "On" if d.bool("old-on") else "Off"
            new = "On" if d.bool("new-on") else "Off"
        el._value = old
        requested = new
        if kind == "oneofmany":
            # the other switch is Off: switching the only On switch Off is overridden by the rule
            drv.main.v.u._value = "Off"
            if new == "Off":
                new = "On"      # what the element must hold / publish / report afterwards
        enabled = d.bool("vector-enabled")
        drv.main.v._enabled = enabled
        veto = d.bool("veto") if cfg[0] >= 1 and entry != "assign" else False
        drv.veto = veto
        returned_at = []

        def act():
            if entry == "client":
                Part = one_parts.OneText if kind == "text" else one_parts.OneSwitch
                Msg = message.NewTextVector if kind == "text" else message.NewSwitchVector
                router.process_message(Msg(device="DEV", name="V", children=(Part(name="T", value=requested),)), sender=None)
            elif entry == "set_value":
                el.set_value(requested)
            else:
                el.value = requested
            returned_at.append(len(trace))
        loop.call_at(0, act)
        try:
            loop.run_until_idle(5)
        except NoProgress:
            return verdict(False, "the loop never becomes idle")
        if loop.task_errors:
            return verdict(False, "a handler task died: " + repr(loop.task_errors[0][1]))
        if MODE.trace is not None:
            note("cfg", cfg, kind, entry, "old", old, "new", new, "veto", veto, "enabled", enabled, "trace", list(trace))
        pw, cw, pc, cc, pr = cfg
        sync_end = returned_at[0] if returned_at else len(trace)
        names = [t[0] for t in trace]
        foreign = [t for t in trace if t[1] == "DEV2"]
        if foreign:
            return verdict(False, "a handler of another driver instance was invoked")
        writes_expected = entry != "assign"
        # --- Write handlers
        for tag, cnt in (("write-plain1", pw >= 1), ("write-plain2", pw >= 2), ("write-coro1", cw >= 1), ("write-coro2", cw >= 2)):
            n = names.count(tag)
            if n != (1 if (cnt and writes_expected) else 0):
                return verdict(False, f"{tag} invoked {n} times")
        for i, t in enumerate(trace):
            if t[0].startswith("write-plain"):
                if t[2] != requested:
                    return verdict(False, "a Write handler did not get the requested value")
                if t[4] != old:
                    return verdict(False, "a plain Write handler ran after the state had changed")
                if "published" in names[:i]:
                    return verdict(False, "published before the plain Write handlers ran")
            if t[0].startswith("write-coro"):
                if t[2] != requested:
                    return verdict(False, "a coroutine Write handler did not get the requested value")
                if i < sync_end:
                    return verdict(False, "a coroutine Write handler ran inline instead of as a task")
        pubs = [t for t in trace if t[0] == "published"]
        changes_plain = [t for t in trace if t[0].startswith("change-plain")]
        changes_coro = [t for t in trace if t[0].startswith("change-coro")]
        if veto:
            if el._value != old:
                return verdict(False, "a vetoed write changed the element")
            if pubs or changes_plain or changes_coro:
                return verdict(False, "a vetoed write published or raised Change")
            return verdict(True)
        if el._value != new:
            return verdict(False, "the element did not take the value")
        want_pubs = 1 if enabled else 0
        if len(pubs) != want_pubs:
            return verdict(False, f"{len(pubs)} updates published, expected {want_pubs}")
        if pubs and (pubs[0][1] not in ("SetTextVector", "SetSwitchVector") or pubs[0][2] != new):
            return verdict(False, "the published update does not carry the value")
        changed = old != new
        want_plain = (1 if pc >= 1 else 0) + (1 if pc >= 2 else 0)
        if len(changes_plain) != (want_plain if changed else 0):
            return verdict(False, "plain Change handlers: wrong number of invocations")
        if len(changes_coro) != ((1 if cc >= 1 else 0) if changed else 0):
            return verdict(False, "coroutine Change handlers: wrong number of invocations")
        for t in changes_plain + changes_coro:
            if t[2] != new or t[3] != old:
                return verdict(False, "Change carries the wrong old/new value")
            if t[4] != new:
                return verdict(False, "Change raised before the value was stored")
        if pr >= 1 and pubs:
            ip = names.index("published")
            if "read-plain1" not in names[:ip]:
                return verdict(False, "the plain Read handler did not run before publication")
        return verdict(True)
    return body


def read_refresh(kind="text"):
    """A plain Read handler that refreshes the value: the refreshed value is
    what is returned and what is published."""
    def body(d: Draw):
        loop, va = vloop.install_for_mode()
        from indi.device import Driver, properties
        from indi.device.events import Read, on
        from indi.routing.router import Router
        from indi.routing import Client
        from indi import message
        fresh = d.str(1, "fresh")
        got = []

        class Rec(Client):
            def message_from_device(self, m):
                got.append(m)
        router = Router()
        router.register_client(Rec())

        class Drv(Driver):
            name = "DEV"
            main = properties.Group("MAIN", vectors=dict(v=properties.TextVector("V", elements=dict(t=properties.Text("T", default="o")))))

            @on(main.v.t, Read)
            def refresh(self, e):
                e.element.reset_value(fresh)
        drv = Drv(router=router)
        v1 = drv.main.v.t.value
        drv.message_from_client(message.GetProperties(version="1.7", device="DEV"))
        ok = v1 == fresh and len(got) == 1 and got[0].children[0].value == fresh
        drv.main.v.state_ = "Busy"
        ok = ok and len(got) == 2 and got[1].children[0].value == fresh
        return verdict(ok, "a value refreshed by a Read handler was not what was returned / published")
    return body


CONFIGS_QUICK = [(0, 0, 0, 0, 0), (1, 0, 0, 0, 0), (0, 1, 0, 0, 0), (1, 1, 1, 0, 0), (2, 0, 1, 0, 0), (1, 0, 1, 1, 1),
                 (0, 0, 2, 0, 0), (1, 2, 1, 0, 1), (0, 0, 1, 0, 1)]


def conditions(tier):
    out = []
    thorough = tier == "thorough"
    if thorough:
        configs = [(a, b, c, e, f) for a in range(3) for b in range(3) for c in range(3) for e in range(2) for f in range(2)]
    else:
        configs = CONFIGS_QUICK
    for cfg in configs:
        tag = "".join(str(x) for x in cfg)
        for entry in ("client", "set_value", "assign"):
            kinds = ("text", "switch", "oneofmany") if (thorough or cfg in CONFIGS_QUICK[:4]) else (("text", "oneofmany") if cfg[2] else ("text",))
            for kind in kinds:
                out.append(Condition(f"event/{tag}/{kind}/{entry}", make_condition(scenario(cfg, kind, entry), 2, 0, 4),
                                     about=f"handlers (plainW,coroW,plainC,coroC,plainR)={cfg}, {kind} element, entry {entry}",
                                     encodes=ENC, timeout=600))
    out.append(Condition("read-refresh", make_condition(read_refresh(), 1, 0, 0),
                         about="plain Read handler refreshes the value before it is returned / published", encodes=ENC, timeout=300))
    out.append(Condition("second-instance/coroutine-handlers", make_condition(scenario((1, 1, 1, 1, 0), "text", "client", True), 2, 0, 4),
                         about="two instances of one driver class, plain AND coroutine handlers: only the addressed instance's handlers run",
                         encodes=ENC, timeout=600))
    out.append(Condition("second-instance/client", make_condition(scenario((1, 0, 1, 0, 0), "text", "client", True), 2, 0, 4),
                         about="two instances of one driver class on a router: a write to one must not invoke the other's handlers",
                         encodes=ENC, timeout=600))
    return out


def validate_stubs():
    from props import c17
    return c17.validate_stubs()


def signature(cond_name, args, detail):
    if cond_name.startswith("second-instance"):
        return SIG_SHARED
    return "C14:" + "/".join(cond_name.split("/")[2:])
