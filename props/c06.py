"""C06 -- a client's write changes exactly the addressed element, to the value sent.

enc: client.Vector.submit, client.Element.value setter / to_new_message /
reset_new_value / has_new_value, client.BLOB.to_new_message, tree wire,
Router.process_message, Driver.message_from_client, Vector.from_new_message,
*.set_value_from_message, values.str_to_num (call site), BLOB.from_base64, and
the way back into the client mirror.

Deployment: the three-level driver (6 vectors) and a second device with a
vector of the same name on one router; a network client after the handshake.
Symbolic: which elements of the target vector are written (subset bits), the
values (text len<=1, switch bits, number by index into spellings valid for the
format, BLOB length by index), the client kind.  Asserted on a snapshot of every
element of every device before / after: exactly the targeted elements changed
(modulo the switch rule, C09), the new values are what was sent (numbers
numerically), the client's mirror shows them after the resulting update and its
pending values are cleared.
"""
from __future__ import annotations

from fractions import Fraction

from props.c12 import snapshot
from props.common import Condition, Draw, Reject, make_condition, verdict, note, MODE
from props.driverlib import rich_driver_classes, vector_kind
from props.netlib import Net, library_client, single_conn_client

ENC = ("indi.client.vectors.Vector.submit", "indi.client.elements.Element.value", "indi.client.elements.Element.to_new_message",
       "indi.client.elements.Element.reset_new_value", "indi.client.elements.BLOB.to_new_message", "indi.routing.router.Router.process_message",
       "indi.device.driver.Driver.message_from_client", "indi.device.properties.instance.vectors.Vector.from_new_message",
       "indi.device.properties.instance.elements.*.set_value_from_message", "indi.device.values.str_to_num",
       "indi.device.values.BLOB.from_base64", "indi.client.vectors.Vector.process_message", "indi.client.elements.Element.process_message")
BOUNDS = {"quick": "targets: TXT(2 elements), SW OneOfMany(3), ANY AnyOfMany(2), NUM(3 formats %.2f %d %.3m), BLOB(2) on device DEV with a same-named "
                   "vector on device OTHER; every non-empty element subset (symbolic bits); text len<=1; numbers from 5 spellings (int, decimal text, d:mm, d:mm:ss, negative with zero whole part); BLOB length 0..2",
          "thorough": "as quick plus the library two-connection client for every target"}
OUTSIDE = "fragmentation of the wire stream (premise C02); float rendering (C10)"
ASSUMPTIONS = ["tree wire (C03)", "switch-rule side effects are C09's subject"]

NUMBER_SPELLINGS = ((5, Fraction(5)), ("-1.25", Fraction(-5, 4)), ("1:30", Fraction(3, 2)), ("0:30:36", Fraction(51, 100)), ("-0:30", Fraction(-1, 2)))
FILL = bytes(range(40, 48))
TARGETS = {"TXT": ("A", "B"), "SW": ("S0", "S1", "S2"), "ANY": ("P", "Q"), "NUM": ("N", "S"), "BLOB": ("X", "Y")}   # NUM: %.2f and %.3m elements


def write(target, client_kind):
    def body(d: Draw):
        from indi.routing.router import Router
        from indi.device import values
        net = Net()
        Rich, Other, Mid, Base = rich_driver_classes()
        router = Router()
        drv = Rich(router=router)
        oth = Other(router=router)
        if client_kind == "library":
            client, ctrl, blobconn = library_client(net, router)
        else:
            client, conn = single_conn_client(net, router)
        client.handshake()
        vec = drv._vectors[target]
        kind = vector_kind(vec)
        names = TARGETS[target]
        chosen = [nm for nm in names if d.bool("write-" + nm)]
        if not chosen:
            raise Reject()
        cv = client["DEV"][target]
        sent = {}
        for nm in chosen:
            if kind == "Text":
                v = d.str(1, "text-" + nm)
                sent[nm] = v
            elif kind == "Switch":
                v = "On" if d.bool("on-" + nm) else "Off"
                sent[nm] = v
            elif kind == "Number":
                v, num = d.choice(NUMBER_SPELLINGS, "number-" + nm)
                fmt = vec._elements_by_name[nm]._definition.format
                sent[nm] = num
            else:
                n = d.int(0, 2, "len-" + nm)
                raw = FILL[:n]
                v = values.BLOB(raw, ".b" + nm)
                sent[nm] = (raw, ".b" + nm)
            cv[nm].value = v
        before = snapshot((drv, oth))
        try:
            cv.submit()
        except Exception as e:
            if MODE.trace is not None:
                note("submit raised", repr(e))
            return verdict(False, "submitting the write raised")
        after = snapshot((drv, oth))
        if MODE.trace is not None:
            note("target", target, "sent", {k: str(v) for k, v in sent.items()}, "parse failures", [repr(x[1]) for x in net.parse_failures][:2])
        for key in before:
            dev, vn, en = key
            named = dev == "DEV" and vn == target and en in sent
            if not named:
                if before[key] != after[key]:
                    if kind == "Switch" and dev == "DEV" and vn == target and en != "#state" and target == "SW":
                        continue     # the OneOfMany rule may turn other switches of the vector off
                    return verdict(False, f"{key} changed although the write did not name it")
                continue
            got = after[key]
            if kind == "Number":
                if got is None or abs(Fraction(got) - sent[en]) > Fraction(1, 10 ** 9):
                    return verdict(False, f"number {en}: driver holds {got!r}, {sent[en]} was sent")
            elif kind == "Switch":
                if target == "ANY" and got != sent[en]:
                    return verdict(False, f"switch {en}: driver holds {got!r}, {sent[en]!r} was sent")
                if sent[en] == "On" and chosen[-1] == en and got != "On":
                    return verdict(False, "the last switch turned On is not On")
            elif kind == "Text":
                # empty text equals absent text on the wire (C03's normalisation)
                if (got or None) != (sent[en] or None):
                    return verdict(False, f"{en}: driver holds {got!r}, {sent[en]!r} was sent")
            elif got != sent[en]:
                return verdict(False, f"{en}: driver holds {got!r}, {sent[en]!r} was sent")
        # the client's own view after the resulting update
        for nm in chosen:
            ce = cv[nm]
            if ce.has_new_value:
                return verdict(False, "a pending value was not cleared by submit()")
            mirror = ce.value
            truth = drv._vectors[target]._elements_by_name[nm]._value
            if kind == "Number":
                want = values.num_to_str(truth, drv._vectors[target]._elements_by_name[nm]._definition.format)
                if mirror != want:
                    return verdict(False, f"client shows {mirror!r} for {nm}, the device renders {want!r}")
            elif kind == "BLOB":
                if client_kind == "library":
                    if mirror is None or isinstance(mirror, str) or (mirror.binary, mirror.format) != (truth.binary, truth.format):
                        return verdict(False, "the client that enabled BLOBs does not show the uploaded BLOB")
            elif (mirror or None) != (truth or None):
                return verdict(False, f"client shows {mirror!r} for {nm}, the device holds {truth!r}")
        return verdict(True)
    return body


def conditions(tier):
    out = []
    thorough = tier == "thorough"
    for t in TARGETS:
        kinds = ("single", "library") if (thorough or t == "BLOB") else ("single",)
        for ck in kinds:
            out.append(Condition(f"write/{t}/{ck}", make_condition(write(t, ck), 3, 4, 7),
                                 about=f"{ck} client writes a symbolic non-empty subset of {t}'s elements with symbolic values",
                                 encodes=ENC, timeout=2400))
    return out


def validate_stubs():
    out = []
    from props import c03
    out += c03.validate_stubs()          # tree wire against ET.tostring / expat
    return out


def signature(cond_name, args, detail):
    return "C06:" + cond_name.split("/")[1]
