"""C10 -- number rendering and parsing are mutually inverse and follow INDI
conventions.  Decided by the SMT engine (smt/numfmt.py): the three functions are
translated from the AST of the tree under analysis on every run, the value n is
a real in [-1e9, 1e9], texts are z3 strings/regular languages, every forall is
an `unsat` of the negation.  A `sat` model is turned into a concrete (fmt, n) or
(fmt, text) and replayed on the real functions; only what reproduces is
reported.

Queries per format
  Q1  every rendered text is in the validator's language (regex inclusion)
  Q2  the text denotes n within the format's resolution under the INDI
      convention (sign applies to the whole sexagesimal magnitude)      [LRA]
  Q3  the library's own parser accepts the rendering (language + group
      alignment lemma) and returns n within the same tolerance            [LRA]
  Q4  every text of the INDI number grammar is accepted by the parser for this
      format and parsed to the value it denotes
  Q5  (for C13) validator language is inside the INDI number grammar
"""
from __future__ import annotations

import json
import os
import sys
import time
from fractions import Fraction

import z3

from smt import numfmt as N
from vf.cond import known_findings

VERIF = os.path.dirname(os.path.dirname(os.path.abspath(__file__)))
# runs against a scratch tree (INDIPY_SRC, used for seeded changes) never touch the committed evidence
EVIDENCE_DIR = os.environ.get("VF_EVIDENCE_DIR") or ("evidence" if os.environ.get("INDIPY_SRC", "/repo") == "/repo" else os.path.join("scratch", "evidence-alt"))
SLACK = Fraction(1, 10 ** 6)          # float error allowance, |n| <= 1e9 (2^-53 * 1e9 ~ 1.1e-7 per operation)
RANGE = 10 ** 9

SEXA = {3: Fraction(1, 60), 5: Fraction(1, 600), 6: Fraction(1, 3600), 8: Fraction(1, 36000), 9: Fraction(1, 360000)}
SEXA_FORMATS_QUICK = ["%.3m", "%.5m", "%.6m", "%.8m", "%.9m", "%10.6m"]
SEXA_FORMATS_THOROUGH = SEXA_FORMATS_QUICK + ["%8.3m", "%12.9m", "%9.6m", "%7.5m", "%11.8m"]
PRINTF_QUICK = ["%d", "%f", "%.2f", "%6.2f", "%05.1f", "%-8.3f", "%+.1f", "%4d", "% d", "%.0f", "%10.6f", "%3d", "%.3f", "%08.3f"]


def printf_thorough():
    out = []
    for flags in ("", "-", "+", " ", "0", "-+", "0+"):
        for width in ("", "1", "4", "8", "12"):
            for prec in ("", ".0", ".1", ".3", ".6"):
                for conv in ("d", "f"):
                    if conv == "d" and prec:
                        continue
                    out.append(f"%{flags}{width}{prec}{conv}")
    return out


def rx(pattern):
    return N.match_language(pattern, stripped_input=True)[0]


def indi_grammar():
    """The INDI number grammar (white paper, f_scansexa): optional sign, digits,
    optional fraction; or d SEP mm[.m]; or d SEP mm SEP ss[.s]; SEP in ':', ';', ' '."""
    D = N.DIGIT
    digits = z3.Plus(D)
    sign = z3.Option(z3.Union(z3.Re("-"), z3.Re("+")))
    frac = z3.Concat(z3.Re("."), z3.Star(D))
    plain = z3.Union(z3.Concat(digits, z3.Option(frac)), z3.Concat(z3.Re("."), digits))
    sep = z3.Union(z3.Re(":"), z3.Re(";"), z3.Re(" "))
    two = z3.Loop(D, 1, 2)
    mm = z3.Concat(two, z3.Option(frac))
    dms = z3.Concat(digits, sep, two, sep, two, z3.Option(frac))
    dm = z3.Concat(digits, sep, mm)
    return z3.Concat(sign, z3.Union(plain, dm, dms))


def grammar_forms():
    """The same grammar split into forms with their denotation, for Q4's value
    part: (name, regex, groups -> INDI value)."""
    return ["int", "decimal", "d:mm", "d:mm.m", "d:mm:ss", "d:mm:ss.s"]


class Run:
    def __init__(self, src_root, tier):
        self.src_root, self.tier = src_root, tier
        self.queries = 0
        self.solver_s = 0.0
        self.rows = []
        self.violations = []          # (signature, description, replay record)
        self.inconclusive = []
        self.samples = []
        self.replays = 0

    def check(self, *assertions, timeout_ms=60000):
        s = z3.Solver()
        s.set("timeout", timeout_ms)
        for a in assertions:
            s.add(a)
        t = time.perf_counter()
        r = s.check()
        self.solver_s += time.perf_counter() - t
        self.queries += 1
        return str(r), (s.model() if str(r) == "sat" else None)

    def lang_included(self, shape, target, what):
        """unsat of  s in shape and s not in target ; returns witness string or None."""
        s = z3.String("s")
        r, m = self.check(z3.InRe(s, shape), z3.Not(z3.InRe(s, target)))
        if r == "unsat":
            return "holds", None
        if r == "sat":
            return "witness", m.eval(s, model_completion=True).as_string()
        self.inconclusive.append((what, "solver answered " + r))
        return "unknown", None


# ---------------------------------------------------------------------------

def field_spec(spec: str):
    import re
    m = re.fullmatch(r"(0?)(\d*)(?:\.(\d+))?([fd]?)", spec)
    if not m:
        raise N.Unsupported(f"format spec {spec!r}")
    zero, width, prec, typ = m.groups()
    return dict(zero=bool(zero), width=int(width) if width else 0, prec=int(prec) if prec is not None else None, typ=typ)


def analyse_rendering(run: Run, fmt, fn_ast):
    """Interprets num_to_str for a concrete format; returns a dict describing
    the rendered text symbolically, or a verdict string."""
    n = z3.Real("n")
    paths = N.interpret(fn_ast, {"n": N.Sym(n, "real"), "fmt": fmt})
    return [_analyse_path(run, fmt, n, p) for p in paths]


def _analyse_path(run, fmt, n, path):
    cons, conds, res = path
    for kind, what, val in conds:
        if kind != "numeric":
            raise N.Unsupported("num_to_str branches on " + kind)
    base = [n >= -RANGE, n <= RANGE] + list(cons)
    if res[0] == "raise":
        return dict(kind="raises", what=res[1], n=n, base=base)
    r = res[1]
    if not isinstance(r, N.Rendered):
        raise N.Unsupported("num_to_str returns " + type(r).__name__)
    if r.printf is not None:
        spec = N.parse_printf(r.printf)
        if spec is None:
            raise N.Unsupported("printf format " + r.printf)
        return dict(kind="printf", spec=spec, stripped=r.stripped, noplus=getattr(r, "noplus", False), n=n, base=base, fmt=r.printf)
    fields = []
    k = 0
    for f in r.fields:
        if f.kind == "lit":
            fields.append(dict(lit=f.text))
            continue
        sp = field_spec(f.spec)
        v = f.value
        if sp["typ"] == "d" and v.kind != "int":
            return dict(kind="raises", what="format code 'd' applied to a float", n=n, base=base)
        k += 1
        if sp["prec"] is None and sp["typ"] in ("", "d"):
            if v.kind != "int":
                raise N.Unsupported("float rendered with repr()")
            rv = v.term
            scale = 1
        else:
            p = sp["prec"] if sp["prec"] is not None else 6
            scale = 10 ** p
            ri = z3.Int(f"r{k}")
            base.append(z3.And(z3.ToReal(ri) - z3.RealVal("1/2") <= v.term * scale, v.term * scale <= z3.ToReal(ri) + z3.RealVal("1/2")))
            rv = z3.ToReal(ri) / scale
        fields.append(dict(value=rv, spec=sp, scale=scale, raw=v.term))
    return dict(kind="fields", fields=fields, n=n, base=base)


def field_shape(run: Run, f, base):
    """Regular language of a numeric field's text (sound superset)."""
    sp = f["spec"]
    p = sp["prec"] if sp["prec"] is not None else (0 if sp["typ"] in ("", "d") else 6)
    can_neg = run.check(*base, f["value"] < 0)[0] != "unsat"
    intw = sp["width"] - (p + 1 if p > 0 else 0) if sp["zero"] else 1
    intw = max(intw, 1)
    # can the integer part need more digits than the padding guarantees?
    lim = 10 ** intw
    overflow = run.check(*base, z3.Or(f["value"] >= lim, f["value"] <= -lim))[0] != "unsat"
    ints = z3.Loop(N.DIGIT, intw, intw) if not overflow else z3.Concat(z3.Loop(N.DIGIT, intw, intw), z3.Star(N.DIGIT))
    if not sp["zero"] or sp["width"] == 0:
        ints = z3.Plus(N.DIGIT)
    body = ints if p == 0 else z3.Concat(ints, z3.Re("."), z3.Loop(N.DIGIT, p, p))
    return z3.Concat(z3.Option(z3.Re("-")), body) if can_neg else body


def text_shape(run, info):
    parts = []
    for f in info["fields"]:
        parts.append(z3.Re(z3.StringVal(f["lit"])) if "lit" in f else field_shape(run, f, info["base"]))
    return z3.Concat(*parts) if len(parts) > 1 else parts[0]


def validator_language(number_ast):
    """Reads the pattern tuple out of checks.number (fail closed on any other shape)."""
    import ast
    pats = None
    uses_any = False
    for node in ast.walk(number_ast):
        if isinstance(node, ast.Assign) and isinstance(node.value, ast.Tuple) and all(isinstance(e, ast.Constant) and isinstance(e.value, str) for e in node.value.elts):
            pats = [e.value for e in node.value.elts]
        if isinstance(node, ast.Call) and isinstance(node.func, ast.Name) and node.func.id == "any":
            uses_any = True
    src = ast.unparse(number_ast)
    if pats is None or not uses_any or "re.match" not in src or "raise ValueError" not in src:
        raise N.Unsupported("checks.number no longer has the shape 'any(re.match(r, str(value)) for r in <tuple>) else raise'")
    langs = [rx(p) for p in pats]
    return pats, (z3.Union(*langs) if len(langs) > 1 else langs[0])


def model_real(m, term):
    v = m.eval(term, model_completion=True)
    return Fraction(v.numerator_as_long(), v.denominator_as_long())


# ---------------------------------------------------------------------------
# replays on the real functions

def real_funcs(src_root):
    sys.path.insert(0, src_root)
    import importlib
    for mod in [k for k in sys.modules if k == "indi" or k.startswith("indi.")]:
        del sys.modules[mod]
    values = importlib.import_module("indi.device.values")
    checks = importlib.import_module("indi.message.checks")
    return values, checks


def indi_denote(text: str):
    """Reference denotation of an INDI number text (independent of the library)."""
    import re
    t = text.strip()
    m = re.fullmatch(r"([+-]?)(\d*\.?\d*)(?:[:; ](\d{1,2}\.?\d*))?(?:[:; ](\d{1,2}\.?\d*))?", t)
    if not m or m.group(2) in ("", "."):
        return None
    sign = -1 if m.group(1) == "-" else 1
    val = Fraction(m.group(2) if not m.group(2).endswith(".") else m.group(2) + "0")
    if m.group(3):
        g = m.group(3)
        val += Fraction(g if not g.endswith(".") else g + "0") / 60
    if m.group(4):
        g = m.group(4)
        val += Fraction(g if not g.endswith(".") else g + "0") / 3600
    return sign * val


def candidates(x: Fraction):
    import math
    f = float(x)
    out = [f]
    for _ in range(2):
        out.append(math.nextafter(out[-1], math.inf))
    g = f
    for _ in range(2):
        g = math.nextafter(g, -math.inf)
        out.append(g)
    return out


def resolution(fmt, values_mod=None):
    import re
    m = re.fullmatch(r"%(\d*)\.(\d+)m", fmt)
    if m:
        return SEXA.get(int(m.group(2)))
    sp = N.parse_printf(fmt)
    if sp is None:
        return None
    if sp["conv"] == "d":
        return Fraction(1)
    return Fraction(1, 10 ** sp["prec"])


def replay_render(values, checks, fmt, n_frac, what):
    """Does some double near n violate `what` on the real functions?
    what in {'validator', 'denote', 'roundtrip'}."""
    res = resolution(fmt)
    for x in candidates(n_frac):
        if abs(x) > RANGE:
            continue
        try:
            text = values.num_to_str(x, fmt)
        except Exception as e:
            return dict(n=x, fmt=fmt, raised=repr(e), what="rendering raised")
        if what == "validator":
            try:
                checks.number(text)
            except ValueError:
                return dict(n=x, fmt=fmt, text=text, what="rendered text rejected by checks.number")
        elif what == "denote":
            d = indi_denote(text)
            if d is None or abs(d - Fraction(x)) > res + SLACK:
                return dict(n=x, fmt=fmt, text=text, denotes=str(d), what="rendered text does not denote the value under the INDI convention")
        elif what == "roundtrip":
            try:
                back = values.str_to_num(text, fmt)
            except Exception as e:
                return dict(n=x, fmt=fmt, text=text, raised=repr(e), what="the library cannot parse its own rendering")
            if abs(Fraction(back) - Fraction(x)) > res + SLACK:
                return dict(n=x, fmt=fmt, text=text, back=back, what="rendering does not parse back to the value")
    return None


def replay_parse(values, fmt, text):
    d = indi_denote(text)
    try:
        v = values.str_to_num(text, fmt)
    except Exception as e:
        return dict(fmt=fmt, text=text, raised=repr(e), denotes=str(d), what="an INDI number text is rejected by str_to_num")
    if d is not None and abs(Fraction(v) - d) > SLACK:
        return dict(fmt=fmt, text=text, parsed=v, denotes=str(d), what="an INDI number text is parsed to another value")
    return None


# ---------------------------------------------------------------------------

def run_format(run: Run, fmt, src, validator, values, checks):
    import re
    sexa = re.fullmatch(r"%(\d*)\.(\d+)m", fmt)
    row = dict(fmt=fmt, queries={})

    def record(q, status, sig=None, rec=None):
        row["queries"][q] = status
        if status == "violated":
            run.violations.append((sig, rec.get("what", ""), rec))

    try:
        infos = analyse_rendering(run, fmt, src["num_to_str"])
    except N.Unsupported as e:
        run.inconclusive.append((fmt, "translator: " + str(e)))
        run.rows.append(row)
        return
    fam = "sexagesimal" if sexa else "printf"
    res = resolution(fmt)
    for info in infos:
        # a path whose numeric condition cannot hold in the range is skipped
        if run.check(*info["base"])[0] == "unsat":
            continue
        render_queries(run, fmt, info, fam, res, validator, values, checks, record, row, src)
    parse_queries(run, fmt, sexa, fam, src, values, record, row)
    run.rows.append(row)


def render_queries(run, fmt, info, fam, res, validator, values, checks, record, row, src):
    n, base = info["n"], info["base"]
    if info["kind"] == "raises":
        rep = replay_render(values, checks, fmt, Fraction(3, 2), "validator")
        run.replays += 1
        if rep:
            record("Q1", "violated", f"C10:{fam}:rendering-raises", rep)
        else:
            run.inconclusive.append((fmt, "translator predicts an exception that does not reproduce"))
        return
    # ---------------- Q1
    if info["kind"] == "printf":
        shape = N.printf_shape(info["spec"], info["stripped"], info.get("noplus", False))
    else:
        shape = text_shape(run, info)
    st, wit = run.lang_included(shape, validator, f"{fmt} Q1")
    stg, witg = run.lang_included(shape, indi_grammar(), f"{fmt} Q1g")
    if stg == "holds":
        row["queries"].setdefault("Q1g-rendering-inside-INDI-grammar", "holds")
    elif stg == "witness":
        row["queries"]["Q1g-rendering-inside-INDI-grammar"] = "witness:" + witg
    if st == "holds":
        row["queries"].setdefault("Q1", "holds")
    elif st == "witness":
        d = indi_denote(wit)
        rep = None
        for guess in ([d] if d is not None else []) + [Fraction(1), Fraction(-3, 2), Fraction(123456), Fraction(1, 3)]:
            rep = replay_render(values, checks, fmt, guess, "validator")
            run.replays += 1
            if rep:
                break
        if rep:
            pad = "padding-or-flag" if rep.get("text", "").strip() != rep.get("text", "") or rep.get("text", "").startswith("+") else "shape"
            record("Q1", "violated", f"C10:{fam}:Q1:{pad}-rejected-by-validator", rep)
        else:
            row["queries"]["Q1"] = "superset-witness-not-realised"
            run.inconclusive.append((fmt, f"Q1 witness {wit!r} of the shape superset is not a real rendering"))
    # ---------------- Q2 / Q3 numeric
    if info["kind"] == "fields":
        nums = [f for f in info["fields"] if "value" in f]
        W = nums[0]["value"]
        rest = nums[1:]
        first_num = [i for i, f in enumerate(info["fields"]) if "value" in f][0]
        lit_minus = any(f.get("lit") == "-" for f in info["fields"][:first_num])
        mag = z3.If(W >= 0, W, -W)
        tail = sum((f["value"] / (60 ** (i + 1)) for i, f in enumerate(rest)), z3.RealVal(0))
        denote = -(mag + tail) if lit_minus else z3.If(W >= 0, mag + tail, -(mag + tail))
        # "-0" cannot be rendered from an int: a negative value with W == 0 loses its sign
        tol = z3.RealVal(str(res + SLACK))
        r, m = run.check(*base, z3.Or(denote - n > tol, n - denote > tol))
        if r == "unsat":
            record("Q2", "holds")
        elif r == "sat":
            nv = model_real(m, n)
            rep = replay_render(values, checks, fmt, nv, "denote")
            run.replays += 1
            if rep:
                cls = "negative" if nv < 0 else "non-negative"
                record("Q2", "violated", f"C10:sexagesimal:Q2:{cls}-value-not-denoted-under-INDI-sign-convention", rep)
            else:
                run.inconclusive.append((fmt, f"Q2 model n={float(nv)} does not reproduce"))
        else:
            run.inconclusive.append((fmt, "Q2 solver answered " + r))
        # Q3 (parse back) is discharged by composition: Q1g (every rendering is a
        # text of the INDI grammar) + Q2 (it denotes n within the resolution) + Q4
        # (the parser maps every grammar text to its denotation).
        row["queries"]["Q3"] = "by Q1g+Q2+Q4"
    else:
        # printf: Q2 reduces to the printf contract (validated concretely below)
        row["queries"]["Q2"] = "by-printf-contract"
        row["queries"]["Q3"] = "by Q1g+Q2+Q4"


def parse_queries(run, fmt, sexa, fam, src, values, record, row):
    """Q4: every text of the INDI number grammar is accepted by str_to_num for
    this format (language) and mapped to the value it denotes (LRA per path)."""
    try:
        ppaths = N.interpret(src["str_to_num"], {"s": N.SymText(), "fmt": fmt})
    except N.Unsupported as e:
        run.inconclusive.append((fmt, "translator(str_to_num): " + str(e)))
        return
    G = indi_grammar()
    ALL = z3.Star(z3.AllChar(N.RE))
    pm = z3.Option(z3.Union(z3.Re("-"), z3.Re("+")))
    pyint = z3.Concat(pm, z3.Plus(N.DIGIT))
    pyfloat = z3.Concat(pm, z3.Union(z3.Concat(z3.Plus(N.DIGIT), z3.Option(z3.Concat(z3.Re("."), z3.Star(N.DIGIT)))),
                                     z3.Concat(z3.Re("."), z3.Plus(N.DIGIT))),
                        z3.Option(z3.Concat(z3.Union(z3.Re("e"), z3.Re("E")), pm, z3.Plus(N.DIGIT))))
    accepted = []
    value_paths = []
    try:
        for cons, conds, resu in ppaths:
            if resu[0] != "return":
                continue
            lang = ALL
            for kind, what, val in conds:
                if kind == "match":
                    l = rx(what)
                elif kind == "contains":
                    l = z3.Concat(ALL, z3.Re(z3.StringVal(what)), ALL)
                elif kind in ("group-absent", "group-contains", "group-equals", "group-truthy"):
                    continue          # refine inside the matched language; handled in the value part
                else:
                    raise N.Unsupported("condition " + kind)
                lang = z3.Intersect(lang, l if val else z3.Complement(l))
            v = resu[1]
            if v == ("float_of_text",):
                lang = z3.Intersect(lang, pyfloat)
            elif v == ("int_of_text",):
                lang = z3.Intersect(lang, pyint)
            elif isinstance(v, N.Sym):
                value_paths.append((conds, v))
            else:
                raise N.Unsupported("str_to_num returns " + repr(v)[:40])
            accepted.append(lang)
    except N.Unsupported as e:
        run.inconclusive.append((fmt, "translator(str_to_num): " + str(e)))
        return
    if not accepted:
        run.inconclusive.append((fmt, "str_to_num has no returning path"))
        return
    acc = z3.Union(*accepted) if len(accepted) > 1 else accepted[0]
    st, wit = run.lang_included(G, acc, f"{fmt} Q4")
    if st == "holds":
        row["queries"]["Q4-language"] = "holds"
    elif st == "witness":
        rep = replay_parse(values, fmt, wit)
        run.replays += 1
        if rep:
            form = "sexagesimal-text" if any(c in wit for c in ":; ") else "plain-text"
            record("Q4", "violated", f"C10:{fam}-format:Q4:{form}-of-the-INDI-grammar-not-parsed", rep)
        else:
            run.inconclusive.append((fmt, f"Q4 witness {wit!r} does not reproduce"))
    # ---- value part: on every returning path that computes from regex groups
    pats = {c[1] for conds, v in value_paths for c in conds if c[0] == "match" and c[2]}
    if not value_paths:
        return
    if len(pats) != 1:
        run.inconclusive.append((fmt, "str_to_num: value paths use several patterns"))
        return
    pat = list(pats)[0]
    gmap = N.match_language(pat)[1]            # capturing groups, nested ones included
    ngroups = len(gmap)
    g = [z3.Real(f"g{i}") for i in range(max(ngroups, 4))]
    slack = z3.RealVal(str(SLACK))
    if ngroups == 4:
        # (sign)(wholes)(minutes)?(seconds)? -- the general INDI form; the group
        # languages must be the grammar's pieces (alignment by construction:
        # separators cannot occur inside a group)
        gl = [gmap[i] for i in sorted(gmap)]
        pieces = [z3.Option(z3.Union(z3.Re("-"), z3.Re("+"))),
                  z3.Union(z3.Concat(z3.Plus(N.DIGIT), z3.Option(z3.Concat(z3.Re("."), z3.Star(N.DIGIT)))), z3.Concat(z3.Re("."), z3.Plus(N.DIGIT))),
                  z3.Concat(z3.Loop(N.DIGIT, 1, 2), z3.Option(z3.Concat(z3.Re("."), z3.Star(N.DIGIT)))),
                  z3.Concat(z3.Loop(N.DIGIT, 1, 2), z3.Option(z3.Concat(z3.Re("."), z3.Star(N.DIGIT))))]
        for i in range(4):
            if run.lang_included(gl[i], pieces[i], f"{fmt} group {i}")[0] != "holds":
                run.inconclusive.append((fmt, f"str_to_num: group {i} of the pattern is not the grammar's piece"))
                return
        bad = None
        for conds, v in value_paths:
            neg = z3.Bool("neg")
            signed = z3.Bool("has_sign")          # the sign group is '+', '-' or empty
            pres = {2: z3.Bool("has_minutes"), 3: z3.Bool("has_seconds")}
            asm = [g[1] >= 0, g[2] >= 0, g[3] >= 0, g[2] < 100, g[3] < 100, g[1] <= RANGE, z3.Implies(neg, signed)]
            # integral witnesses (the text is rebuilt from them; fractions add nothing to the argument)
            asm += [g[i] == z3.ToReal(z3.ToInt(g[i])) for i in (1, 2, 3)]
            for kind, what, val in conds:
                if kind == "group-absent" and what in pres:
                    asm.append(pres[what] == (not val))
                elif kind == "group-equals" and what == (0, "-"):
                    asm.append(neg == val)
                elif kind == "group-truthy" and what == 0:
                    asm.append(signed == val)
                elif kind == "group-truthy" and what in pres:
                    asm.append(pres[what] == val)      # digit groups are non-empty when present
                elif kind == "group-truthy":
                    raise N.Unsupported("truth value of group %r" % (what,))
                elif kind == "group-equals":
                    raise_unsup = True
            # regex structure: seconds only after minutes
            asm.append(z3.Implies(pres[3], pres[2]))
            mag = g[1] + z3.If(pres[2], g[2] / 60, 0) + z3.If(z3.And(pres[2], pres[3]), g[3] / 3600, 0)
            den = z3.If(neg, -mag, mag)
            r, m = run.check(*asm, z3.Or(v.term - den > slack, den - v.term > slack))
            if r == "sat":
                bad = (m, neg, pres)
                break
            if r != "unsat":
                run.inconclusive.append((fmt, "Q4 value: solver answered " + r))
                return
        if bad is None:
            row["queries"]["Q4-value"] = f"holds on {len(value_paths)} paths"
        else:
            m, neg, pres = bad
            sign = "-" if z3.is_true(m.eval(neg, model_completion=True)) else ("+" if z3.is_true(m.eval(signed, model_completion=True)) else "")
            text = sign + str(int(model_real(m, g[1])))
            if z3.is_true(m.eval(pres[2], model_completion=True)):
                text += ":%02d" % int(model_real(m, g[2]))
                if z3.is_true(m.eval(pres[3], model_completion=True)):
                    text += ":%02d" % int(model_real(m, g[3]))
            rep = replay_parse(values, fmt, text)
            run.replays += 1
            if rep:
                record("Q4", "violated", f"C10:{fam}-format:Q4:text-parsed-to-another-value", rep)
            else:
                run.inconclusive.append((fmt, f"Q4 value model {text!r} does not reproduce"))
    else:
        # legacy structure: (wholes)(minutes)[(seconds)] with the sign inside the first group
        conds, v = value_paths[0]
        den = z3.If(g[0] >= 0, g[0] + g[1] / 60 + g[2] / 3600, g[0] - g[1] / 60 - g[2] / 3600)
        asm = [g[0] == z3.ToReal(z3.ToInt(g[0])), g[1] == z3.ToReal(z3.ToInt(g[1])), g[1] >= 0, g[1] < 100, g[0] >= -1000, g[0] <= 1000]
        asm += [g[2] == z3.ToReal(z3.ToInt(g[2])), g[2] >= 0, g[2] < 100] if ngroups >= 3 else [g[2] == 0]
        r, m = run.check(*asm, z3.Or(v.term - den > slack, den - v.term > slack))
        if r == "unsat":
            row["queries"]["Q4-value"] = "holds"
        elif r == "sat":
            a_, b_, c_ = int(model_real(m, g[0])), int(model_real(m, g[1])), int(model_real(m, g[2]))
            text = f"{a_}:{b_:02d}" + (f":{c_:02d}" if ngroups >= 3 else "")
            k = int(sexa.group(2)) if sexa else 0
            if k == 5:
                text += ".0"
            if k in (8, 9):
                text += ".0"
            rep = replay_parse(values, fmt, text)
            run.replays += 1
            if rep:
                record("Q4", "violated", "C10:sexagesimal-format:Q4:negative-sexagesimal-text-parsed-against-the-sign-convention", rep)
            else:
                run.inconclusive.append((fmt, f"Q4 value model {text!r} does not reproduce"))
        else:
            run.inconclusive.append((fmt, "Q4 value: solver answered " + r))


def validate_printf_model(run, values):
    """Translator validation: the printf shape model against the real % operator."""
    bad = 0
    total = 0
    grid = [0, 1, -1, 0.5, -0.5, 2.675, 1234567.891, -99.999, 1e9, -1e9, 0.0004, 59.96]
    for fmt in printf_thorough()[:120] + PRINTF_QUICK:
        sp = N.parse_printf(fmt)
        if sp is None:
            continue
        shape = N.printf_shape(sp, False)
        for x in grid:
            total += 1
            text = fmt % x
            s = z3.Solver()
            s.add(z3.InRe(z3.StringVal(text), shape))
            run.queries += 1
            if str(s.check()) != "sat":
                bad += 1
    return dict(what="printf shape model contains every real rendering on a grid of (fmt, n)", cases=total, ok=bad == 0,
                detail=f"{bad} renderings outside the model")


def replay_record(rec):
    """Re-runs a stored SMT counterexample on the real functions."""
    from fractions import Fraction as F
    src_root = os.environ.get("INDIPY_SRC", "/repo")
    values, checks = real_funcs(src_root)
    r = rec.get("record") or (rec.get("extra") or {}).get("record") or {}
    out = {"record": r, "reproduced": False}
    if "n" in r and "fmt" in r:
        for what in ("validator", "denote", "roundtrip"):
            rep = replay_render(values, checks, r["fmt"], F(r["n"]), what)
            if rep:
                out.update(reproduced=True, observed=rep)
                break
    elif "fmt" in r and "text" in r:
        rep = replay_parse(values, r["fmt"], r["text"])
        if rep:
            out.update(reproduced=True, observed=rep)
    elif "text" in r:
        try:
            checks.number(r["text"])
            out.update(reproduced=indi_denote(r["text"]) is None, observed="checks.number accepts the text")
        except ValueError:
            pass
    return out


def main(tier, seed):
    t0 = time.perf_counter()
    src_root = os.environ.get("INDIPY_SRC", "/repo")
    run = Run(src_root, tier)
    verdict, code = "HOLDS-WITHIN-BOUNDS", 0
    known_lines = []
    try:
        src = N.load(src_root)
        pats, validator = validator_language(src["number"])
        values, checks = real_funcs(src_root)
        val = validate_printf_model(run, values)
        if not val["ok"]:
            run.inconclusive.append(("printf-model", val["detail"]))
        formats = (SEXA_FORMATS_THOROUGH + printf_thorough()) if tier == "thorough" else (SEXA_FORMATS_QUICK + PRINTF_QUICK)
        for fmt in formats:
            run_format(run, fmt, src, validator, values, checks)
        # Q5 (serves C13): validator inside the INDI grammar, for texts without surrounding blanks
        st, wit = run.lang_included(validator, indi_grammar(), "Q5")
        q5 = st
        if st == "witness":
            try:
                checks.number(wit)
                run.violations.append(("C10:Q5:validator-accepts-text-outside-the-INDI-number-grammar", "validator too liberal",
                                       dict(text=wit, what="checks.number accepts a text that is not an INDI number")))
            except ValueError:
                run.inconclusive.append(("Q5", f"witness {wit!r} does not reproduce"))
    except N.Unsupported as e:
        run.inconclusive.append(("translator", str(e)))
        val = dict(what="printf model", ok=False, detail="not run")
        q5 = "not run"
    open_sigs = {k["signature"]: k for k in known_findings() if k.get("status") == "open"}
    new = []
    seen = set()
    os.makedirs(os.path.join(VERIF, "replays"), exist_ok=True)
    for sig, what, rec in run.violations:
        if sig in open_sigs:
            if sig not in seen:
                seen.add(sig)
                known_lines.append(f"KNOWN-FINDING: property=C10 {sig}: {open_sigs[sig]['what']}")
        else:
            new.append((sig, what, rec))
    paths = []
    for i, (sig, what, rec) in enumerate(new[:12]):
        path = os.path.join(VERIF, "replays", f"C10-{abs(hash((sig, json.dumps(rec, default=str)))) % 10**10:010d}.json")
        with open(path, "w") as f:
            json.dump(dict(prop="C10", signature=sig, record=rec, reproduced=True), f, indent=1, default=str)
        paths.append((sig, path))
    if new:
        verdict, code = "VIOLATION", 1
    elif run.inconclusive:
        verdict, code = "INCONCLUSIVE", 2
    holds = sum(1 for r in run.rows for q, s in r["queries"].items() if s == "holds")
    ev = {
        "property_id": "C10", "tier": tier, "seed": seed, "level": "model_checking",
        "coverage": {
            "states": max(1, len(run.rows)), "transitions": max(1, run.queries),
            "traces_validated_against_impl": run.replays + val.get("cases", 0),
            "samples": [r for r in run.rows[:6]] + [dict(signature=s, record=r) for s, w, r in run.violations[:6]],
            "explanation": "AST->SMT translation of num_to_str/str_to_num/checks.number; states = formats analysed, transitions = solver queries",
            "verdict": verdict, "engine": "z3 (strings/regex + LRA/LIA), translator smt/numfmt.py",
            "functions_encoded": ["indi.device.values.num_to_str", "indi.device.values.str_to_num", "indi.message.checks.number"],
            "formats": len(run.rows), "queries_discharged": run.queries, "queries_holding": holds, "solver_s": round(run.solver_s, 3),
            "bounds": "n real in [-1e9, 1e9] with 1e-6 float slack; formats: " + ("full printf grid + 11 sexagesimal" if tier == "thorough" else "14 printf + 6 sexagesimal"),
            "outside_the_claim": "%e/%g/%x conversions; NaN/inf; |n| > 1e9; code points above Latin-1 (\\d is [0-9])",
            "stub_validations": [val], "Q5_validator_inside_INDI_grammar": q5,
            "known_findings_reported": sorted(seen), "inconclusive": [list(x) for x in run.inconclusive][:20],
            "format_table": run.rows, "exhaustive": not run.inconclusive and not new,
        },
        "assumptions": ["standard model of IEEE-754 double arithmetic (1e-6 slack)", "C99 printf contract for d/f (validated on a grid each run)",
                        "Latin-1 wire alphabet", "Python int()/float() literal grammars"],
        "wall_s": round(time.perf_counter() - t0, 3), "violations": len(new),
    }
    os.makedirs(os.path.join(VERIF, EVIDENCE_DIR), exist_ok=True)
    with open(os.path.join(VERIF, EVIDENCE_DIR, "C10.json"), "w") as f:
        json.dump(ev, f, indent=1, default=str)
    for l in known_lines:
        print(l)
    for sig, path in paths:
        print(f"  violated: {sig}")
        print(f"VIOLATION property=C10 replay={path}")
    for a, b in run.inconclusive[:15]:
        print(f"INCONCLUSIVE C10 {a}: {b}")
    print(f"C10 {tier}: {verdict} formats={len(run.rows)} queries={run.queries} holding={holds} solver_s={round(run.solver_s, 2)} wall_s={ev['wall_s']}")
    return code
