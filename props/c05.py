"""C05 -- device messages fan out to every client, subject to its BLOB policy.

enc: Router.process_message/process_enable_blob/register_client/
unregister_client, EnableBLOB, const.BLOBEnable, BaseClient.blob_handshake,
Client.blob_handshake (through the `handshake` conditions).

Inductive step: arbitrary policy table of the bounded universe written into the
real Router + one device-originated message of a concrete kind with symbolic
addressing and sender.  k-step: policies installed through real enableBLOB
messages, unregister/re-register, from the initial state.  Asserted: every
registered non-sender client receives the message exactly once iff the INDI
policy semantics admit it (Never/unset: all but BLOB payload updates; Also:
everything; Only: BLOB payload updates only); everybody else nothing.
Independence is part of the reference: the expected delivery to client c for
device d is computed from policy[c][d] alone while policy[c][d'] and
policy[c'][d] vary symbolically.
"""
from __future__ import annotations

from props.common import Condition, Draw, make_condition, verdict, note, MODE, MSG_SPECS
from props.routerlib import DEVICE_KINDS, POLICIES, endpoints, make_message, ref_policy_admits

ENC = ("indi.routing.router.Router.process_message", "indi.routing.router.Router.process_enable_blob",
       "indi.routing.router.Router.register_client", "indi.routing.router.Router.unregister_client",
       "indi.message.enable_blob.EnableBLOB", "indi.message.const.BLOBEnable",
       "indi.client.client.BaseClient.blob_handshake", "indi.client.client.Client.blob_handshake")
BOUNDS = {
    "quick": "3 clients (one with symbolic registration), device names {A, B, none}, 4 policy values incl. unset for (c0,A) (c0,B) (c1,msg "
             "device), every device-originated kind incl. the getProperties relay; inductive step + 2-step histories",
    "thorough": "as quick with both (c1,A) (c1,B) symbolic and 2-step histories for every kind",
}
OUTSIDE = "more than 3 clients / 2 device names; a client registered twice without unregistering"
ASSUMPTIONS = ["the sender of enableBLOB is a registered client",
               "messages without a device name fall under the default policy (reading of the statement, DESIGN 6.0)",
               "names that become dict keys come from a concrete universe selected by a symbolic index"]

MSG_NAMES = ("A", "B", None)
KINDS = DEVICE_KINDS + ["GetProperties"]


def has_device_field(kind):
    return "device" in [f[0] for f in MSG_SPECS[kind][0]]


def expected(kind, policy):
    return ref_policy_admits(policy, kind == "SetBLOBVector")


def step(kind, wide):
    def body(d: Draw):
        from indi.routing.router import Router
        RecClient, RecDevice = endpoints()
        router = Router()
        c = [RecClient("c0"), RecClient("c1"), RecClient("c2")]
        dev = RecDevice("A", "A")
        reg = [c[0], c[1]] + ([c[2]] if d.bool("c2-registered") else [])
        router.clients = list(reg)
        router.devices = [dev]
        router.blob_routing = {x: {} for x in reg}
        name = d.choice(MSG_NAMES, "name") if has_device_field(kind) else None
        pol = {}
        # c0: both device names symbolic; c1: the message's device (both when wide)
        for n in ("A", "B"):
            pol[(c[0], n)] = d.choice(POLICIES, "p-c0-" + n)
        for n in ("A", "B"):
            if wide or n == name:
                pol[(c[1], n)] = d.choice(POLICIES, "p-c1-" + n)
            else:
                pol[(c[1], n)] = "Also" if n == "A" else "Only"
        for (cl, n), p in pol.items():
            if p is not None and cl in reg:
                router.blob_routing[cl][n] = p
        msg = make_message(kind, name) if has_device_field(kind) else make_message(kind, None)
        if kind == "GetProperties":
            sender = c[1]          # the relay: a client asked, the other clients see it
        else:
            sender = dev
        router.process_message(msg, sender=sender)
        ok, why = True, ""
        for cl in c:
            got = len([m for m in cl.got if m is msg])
            if len(cl.got) != got:
                ok, why = False, "a client received something else"
            if cl is sender or cl not in reg:
                want = 0
            else:
                want = 1 if expected(kind, pol.get((cl, name)) if name is not None else None) else 0
            if got != want:
                ok, why = False, f"{kind} for {name}: client {cl.label} policy {pol.get((cl, name))} got {got} want {want}"
        if kind != "GetProperties" and dev.got:
            ok, why = False, "a device-originated message was handed to a device"
        if MODE.trace is not None:
            note(kind, name, {f"{k[0].label}/{k[1]}": v for k, v in pol.items()}, [x.label for x in reg], why)
        return verdict(ok, why)
    return body


def ops_for(k):
    ops = ["unreg-c0", "rereg-c0", "unreg-c1", "nop"]
    for cn in ("c0", "c1"):
        for n in ("A", "B"):
            for p in ("Never", "Also", "Only"):
                if cn == "c1" and n == "B" and k < 3:
                    continue
                ops.append(f"blob-{cn}-{n}-{p}")
    return ops


def history(kind, k):
    ops = ops_for(k)

    def body(d: Draw):
        from indi.routing.router import Router
        from indi.message import EnableBLOB
        RecClient, RecDevice = endpoints()
        router = Router()
        cl = {"c0": RecClient("c0"), "c1": RecClient("c1"), "c2": RecClient("c2")}
        dev = RecDevice("A", "A")
        router.register_device(dev)
        reg = []
        for x in cl.values():
            router.register_client(x)
            reg.append(x)
        pol = {}
        for _ in range(k):
            op = d.choice(ops, "op")
            if op.startswith("unreg-"):
                x = cl[op[6:]]
                router.unregister_client(x)
                if x in reg:
                    reg.remove(x)
                for key in [key for key in pol if key[0] is x]:
                    del pol[key]      # a peer that comes back starts from the defaults
            elif op.startswith("rereg-"):
                x = cl[op[6:]]
                if x in reg:
                    continue
                router.register_client(x)
                reg.append(x)
            elif op.startswith("blob-"):
                _, cn, n, p = op.split("-")
                x = cl[cn]
                if x not in reg:
                    continue
                # the optional name attribute must make no difference (the setting is per device)
                nm = "IMG" if d.bool("named") else None
                router.process_message(EnableBLOB(device=n, value=p, name=nm), sender=x)
                pol[(x, n)] = p
        for x in cl.values():
            x.got.clear()
        dev.got.clear()
        name = d.choice(MSG_NAMES, "name") if has_device_field(kind) else None
        msg = make_message(kind, name) if has_device_field(kind) else make_message(kind, None)
        sender = cl["c2"] if kind == "GetProperties" else dev
        router.process_message(msg, sender=sender)
        ok, why = True, ""
        for x in cl.values():
            got = len([m for m in x.got if m is msg])
            if x is sender or x not in reg:
                want = 0
            else:
                want = 1 if expected(kind, pol.get((x, name)) if name is not None else None) else 0
            if got != want or len(x.got) != got:
                ok, why = False, f"{kind} for {name}: client {x.label} policy {pol.get((x, name))} got {got} want {want}"
        return verdict(ok, why)
    return body


def reregister(kind):
    """A peer that goes away and comes back starts from the defaults: symbolic
    policy set through a real enableBLOB, unregister, optional traffic in
    between, register again, then one device message."""
    def body(d: Draw):
        from indi.routing.router import Router
        from indi.message import EnableBLOB
        RecClient, RecDevice = endpoints()
        router = Router()
        c0, c1 = RecClient("c0"), RecClient("c1")
        dev = RecDevice("A", "A")
        router.register_device(dev)
        router.register_client(c0)
        router.register_client(c1)
        n0 = d.choice(("A", "B"), "policy-device")
        p0 = d.choice(("Never", "Also", "Only"), "policy")
        router.process_message(EnableBLOB(device=n0, value=p0, name=("IMG" if d.bool("named") else None)), sender=c0)
        p1 = d.choice(POLICIES, "bystander-policy")
        if p1 is not None:
            router.process_message(EnableBLOB(device="A", value=p1, name=("IMG" if d.bool("named-too") else None)), sender=c1)
        router.unregister_client(c0)
        if d.bool("traffic-while-away"):
            router.process_message(make_message(kind, "A"), sender=dev)
            if c0.got:
                return verdict(False, "delivery to an unregistered client")
        router.register_client(c0)
        c0.got.clear()
        c1.got.clear()
        msg = make_message(kind, d.choice(("A", "B"), "msg-device"))
        router.process_message(msg, sender=dev)
        want0 = 1 if expected(kind, None) else 0
        want1 = 1 if expected(kind, p1 if msg.device == "A" else None) else 0
        ok = len(c0.got) == want0 and len(c1.got) == want1
        return verdict(ok, "a re-registered client did not start from the default policy (or the bystander was disturbed)")
    return body


def handshake(which):
    """The library's own clients install their policy through the router:
    BaseClient.blob_handshake -> Never on the control connection,
    Client.blob_handshake -> additionally Only on the BLOB connection; then a
    BLOB update and a non-BLOB update are routed."""
    def body(d: Draw):
        from indi.routing.router import Router
        from indi.client.client import BaseClient, Client
        RecClient, RecDevice = endpoints()
        router = Router()
        ctrl, blob = RecClient("ctrl"), RecClient("blob")
        router.register_client(ctrl)
        router.register_client(blob)
        dev = RecDevice("A", "A")

        class H:
            def __init__(self, ep):
                self.ep = ep

            def send_message(self, m):
                router.process_message(m, sender=self.ep)
        if which == "Client":
            c = Client(None, None)
            c.control_connection_handler, c.blob_connection_handler = H(ctrl), H(blob)
        else:
            class BC(BaseClient):
                def send_message(self, m):
                    router.process_message(m, sender=ctrl)
            c = BC()
        name = d.choice(("A", "B"), "dev")
        c.blob_handshake(name)
        kind = d.choice(("SetBLOBVector", "SetTextVector", "DefBLOBVector"), "kind")
        msg = make_message(kind, d.choice(("A", "B"), "msgdev"))
        router.process_message(msg, sender=dev)
        is_payload = kind == "SetBLOBVector"
        ok = len(ctrl.got) == (0 if is_payload else 1)
        if which == "Client":
            if msg.device == name:
                ok = ok and len(blob.got) == (1 if is_payload else 0)
            else:
                ok = ok and len(blob.got) == (0 if is_payload else 1)
        else:
            ok = ok and len(blob.got) == (0 if is_payload else 1)
        return verdict(ok, "library client's BLOB handshake does not give the documented split")
    return body


def conditions(tier):
    out = []
    thorough = tier == "thorough"
    for kind in KINDS:
        out.append(Condition(f"step/{kind}", make_condition(step(kind, thorough), 0, 6, 1),
                             about=f"{kind} routed in an arbitrary policy state", encodes=ENC,
                             bounds="3 clients, names {A,B,none}, 4 policy values", timeout=900))
    hk = KINDS if thorough else ["SetBLOBVector", "SetTextVector", "DefBLOBVector", "DelProperty", "Message", "GetProperties",
                                 "DefSwitchVector", "SetNumberVector"]
    for kind in hk:
        k = 2     # 3 steps: ~28 choices per step (the name bit doubles the policy operations) = 66 000 paths, not finished in 30 min
        out.append(Condition(f"history{k}/{kind}", make_condition(history(kind, k), 0, k + 1, k),
                             about=f"{k} symbolic operations (enableBLOB / unregister / re-register) from the initial state, then {kind}",
                             encodes=ENC, bounds=f"{k} operations out of {len(ops_for(k))}", timeout=900))
    for kind in ("SetBLOBVector", "SetTextVector"):
        out.append(Condition(f"reregister/{kind}", make_condition(reregister(kind), 0, 5, 3),
                             about=f"enableBLOB, unregister, register again, then {kind}: defaults apply", encodes=ENC, timeout=600))
    for which in ("BaseClient", "Client"):
        out.append(Condition(f"handshake/{which}", make_condition(handshake(which), 0, 3, 0),
                             about=f"{which}.blob_handshake installs the documented policy", encodes=ENC, timeout=300))
    return out


def signature(cond_name, args, detail):
    tr = " ".join((detail or {}).get("trace", []))
    kind = cond_name.split("/")[1]
    return f"C05:{kind}:wrong-fanout"
