"""C02 -- stream framing is lossless, ordered and independent of fragmentation.

enc: Buffer.append / data / data_len / _cleanup_buffer / _cleanup_beginning /
_find_message_in_buffer / process  (all real, incl. StringIO).

Ground-truth oracle (DESIGN 4.2): the stream is m1 f1 m2 f2 [m3] with symbolic
message strings under the XML facts F1-F6 and inter-message filler (nothing,
newline, an XML declaration); a prefix is a well-formed message iff it equals
one of the mi.  Cut offsets c1 <= c2 are symbolic integers, so every partition
into <= 3 pieces is covered.  Asserted after every append+process: the
delivered list is exactly the list of messages whose last character has
arrived -- for every message no longer than the threshold, and for every
message when the threshold is disabled.
"""
from __future__ import annotations

from props.bufferlib import GroundTruthOracle, make_buffer, real_tags, str_eq
from props.common import Condition, Draw, HarnessError, NoProgress, Reject, make_condition, verdict, note, MODE

ENC = ("indi.transport.buffer.Buffer.append", "indi.transport.buffer.Buffer.data", "indi.transport.buffer.Buffer.data_len",
       "indi.transport.buffer.Buffer._cleanup_buffer", "indi.transport.buffer.Buffer._cleanup_beginning",
       "indi.transport.buffer.Buffer._find_message_in_buffer", "indi.transport.buffer.Buffer.process")
BOUNDS = {
    "quick": "2 messages of 4..5 symbolic characters (any code point); fillers none / newline / newline+declaration+newline; every "
             "2-piece partition (symbolic cut, explicit fork); threshold disabled / symbolic T in [max len, 12]; tags {a,b}; plus concrete long "
             "messages (1500..4100 characters) read in 700..4096-character chunks",
    "thorough": "as quick plus every 3-piece partition of the 4+4 family, the 5+5 family and the declaration filler",
}
OUTSIDE = ("expat itself (premises F1-F6, validated on a concrete corpus every run); messages longer than 5 symbolic characters; three or more messages in one stream (two suffice for the induction over the buffer state); "
           "equivalent XML spellings (inside expat; at this level a spelling is another mi)")
ASSUMPTIONS = [
    "F1 a strict prefix of a well-formed element is not a well-formed document",
    "F2 a well-formed element followed by further non-blank text is not a well-formed document",
    "F3 a message starts with '<'+known tag and ends with '>'", "F4 a document never ends in '>>'",
    "F5 nothing shorter than 4 characters is a document",
    "F6 no other substring of the stream is a well-formed message",
    "tags {a,b} stand for the message tags (only used in '<'+tag and find)",
]

FILLERS = ("", "\n", "<?x?>\n", "\n<?x?>\n")   # the last one is the library's own framing between two messages


def draw_msg(d: Draw, length, tags=("a", "b")):
    s = d.str(None, "msg")
    if len(s) != length:
        raise Reject()
    if s[0] != "<" or s[length - 1] != ">" or s[length - 2] == ">":
        raise Reject()
    if s[1] != tags[0] and s[1] != tags[1]:
        raise Reject()
    return s


def feed_and_check(buf, stream, cuts, ends, nmsgs, oracle, must, canon, total=None):
    """Feeds the pieces; after each append+process compares deliveries.
    ends[i] = offset just past message i; must[i] = is delivery of i claimed."""
    delivered = []

    def cb(m):
        oracle.wd.tick()      # the callback is the one stub every loop iteration must call
        delivered.append(m)
    pos = 0
    bounds = list(cuts) + [None]
    for b in bounds:
        piece = stream[pos:b] if b is not None else stream[pos:]
        pos = b if b is not None else total
        buf.append(piece)
        try:
            buf.process(cb)
        except NoProgress:
            return False, "process() does not terminate"
        # expected: all messages whose last character has arrived
        for tok in delivered:
            if tok is None:
                return False, "callback called with None"
        exp = [i for i in range(nmsgs) if ends[i] <= pos]
        got = [t.index for t in delivered]
        # The oracle names a message by the first index with that text, so
        # expected indices are canonicalised the same way (the same message may
        # legitimately be sent twice).  Claimed messages must appear exactly
        # once, in order, promptly; unclaimed ones (longer than the threshold)
        # may or may not appear; nothing else may.
        k = 0
        for i in exp:
            if k < len(got) and got[k] == canon[i]:
                k += 1
            elif must[i]:
                return False, f"message {i} lost, late or out of order (delivered {got}, arrived {exp})"
        if k != len(got):
            return False, f"unexpected delivery (delivered {got}, arrived {exp})"
    return True, ""


def real_two(parts, cuts, T, lens):
    """Replay on the real Buffer with real expat: the scenario concretised to
    real serialised messages (bufferlib.real_replay_stream)."""
    from props.bufferlib import real_replay_stream, real_part
    got, hang, err, stream, rcuts, rT, log, buf = real_replay_stream(parts, cuts, T, lens)
    note("real stream", stream, "cuts", rcuts, "threshold", rT, "delivered", len(got), "log", log, "hang", hang, "error", err)
    if hang:
        return False, "process() does not terminate (real Buffer, real expat)"
    if err:
        return False, "process() raised " + err
    if any(g is None for g in got):
        return False, "callback called with None"
    # promptness and completeness on the real run
    ends, pos = [], 0
    for p in parts:
        pos += len(real_part(p))
        if p[:1] == "<" and len(p) >= 4 and p[1:2] in ("a", "b") and p.endswith(">"):
            ends.append(pos)
    for fed, n in log:
        want = len([e for e in ends if e <= fed])
        if n != want:
            return False, f"after {fed} characters {n} messages were delivered, {want} had arrived"
    return True, ""


def concretize(i, lo, hi):
    """Explicit fork over the values of a symbolic integer.  CrossHair has to
    realise slice bounds anyway; doing it up front keeps every later string
    operation on concrete offsets (measured: 1 s/path and 260 queries/path with
    symbolic offsets)."""
    for k in range(lo, hi):
        if i == k:
            return k
    return hi


def two_messages(l1, l2, mode, ncuts=2, fillers=FILLERS, f2s=("", "\n"), c1range=None):
    """mode: 'disabled' | 'threshold'.  c1range=(lo, hi): the first cut is taken
    from that sub-range (the ranges of a family partition 0..n; splitting keeps
    every condition under a few minutes: each concrete cut costs ~21 paths /
    ~10 s of solver work on the symbolic characters; measured)."""
    def body(d: Draw):
        m1 = draw_msg(d, l1)
        m2 = draw_msg(d, l2)
        if l1 < l2 and str_eq(m2[:l1], m1):
            raise Reject()    # F1
        if l2 < l1 and str_eq(m1[:l2], m2):
            raise Reject()
        f1 = d.choice(fillers, "filler1")
        f2 = d.choice(f2s, "filler2")
        if mode == "threshold":
            T = d.int(max(l1, l2), 12, "threshold")   # both messages are claimed
        stream = m1 + f1 + m2 + f2
        n = len(stream)
        n = l1 + len(f1) + l2 + len(f2)
        lo, hi = (0, n) if c1range is None else (c1range[0], min(c1range[1], n))
        if lo > hi:
            raise Reject()
        c1 = concretize(d.int(lo, hi, "cut1"), lo, hi)
        if ncuts == 2:
            c2 = concretize(d.int(0, n, "cut2"), 0, n)
            if c1 > c2:
                raise Reject()
            cuts = [c1, c2]
        else:
            cuts = [c1]
        if mode == "disabled":
            T = None
            must = [True, True]
        else:
            must = [True, True]
        if MODE.real:
            return verdict(*real_two([m1, f1, m2, f2], cuts, T, [l1, l2]))
        oracle = GroundTruthOracle([m1, m2], limit=60)
        buf = make_buffer(oracle, ["a", "b"], T)
        ends = [l1, l1 + len(f1) + l2]
        canon = [0, 0 if (l1 == l2 and str_eq(m1, m2)) else 1]
        ok, why = feed_and_check(buf, stream, cuts, ends, 2, oracle, must, canon, n)
        if MODE.trace is not None:
            note("stream", stream, "cuts", cuts, "T", T, why)
        return verdict(ok, why)
    return body


def conditions(tier):
    out = []
    thorough = tier == "thorough"

    def add(l1, l2, mode, ncuts, f1s, f2s, c1range, timeout=900):
        fi = "+".join(str(FILLERS.index(f)) for f in f1s)
        gi = "+".join("e" if f == "" else "n" for f in f2s)
        rng = "all" if c1range is None else f"{c1range[0]}-{c1range[1]}"
        out.append(Condition(f"two/{l1}+{l2}/{mode}/f{fi}/g{gi}/{ncuts}cut/c1={rng}",
                             make_condition(two_messages(l1, l2, mode, ncuts, f1s, f2s, c1range), 2, 5, 0),
                             about=f"two messages of {l1} and {l2} symbolic characters separated by {f1s!r}, trailer {f2s!r}, every "
                                   f"{ncuts + 1}-piece partition with first cut in {rng}, threshold {mode}",
                             encodes=ENC, bounds=f"lengths {l1},{l2}", timeout=timeout))

    for mode in ("disabled", "threshold"):
        for f in FILLERS:
            if f == "<?x?>\n" and not thorough:
                continue      # quick: the declaration is covered with its leading newline
            n = 4 + len(f) + 4 + 1
            half = n // 2
            trailers = ("\n",) if (len(f) > 1 and not thorough) else ("", "\n")
            add(4, 4, mode, 1, (f,), trailers, (0, half))
            add(4, 4, mode, 1, (f,), trailers, (half + 1, n))
        for (l1, l2) in ((5, 4), (4, 5)):
            add(l1, l2, mode, 1, ("\n",), ("\n",), (0, 5))
            add(l1, l2, mode, 1, ("\n",), ("\n",), (6, 11))
        if thorough:
            for f in ("\n", "\n<?x?>\n"):
                n55 = 5 + len(f) + 5 + 1
                for lo in range(0, n55 + 1, 4):
                    add(5, 5, mode, 1, (f,), ("\n",), (lo, lo + 3), 1800)
            for f in ("", "<?x?>\n"):
                add(5, 4, mode, 1, (f,), ("", "\n"), None, 2400)
            for f in ("\n", "<?x?>\n"):
                n = 4 + len(f) + 4 + 1
                for c1 in range(n + 1):
                    add(4, 4, mode, 2, (f,), ("\n",), (c1, c1), 1800)
    # the default constants of the statement (1024-byte reads, 2048-character
    # threshold) on concrete long messages: lengths and read sizes by symbolic index
    for mode in ("disabled", "default"):
        out.append(Condition(f"long/{mode}", make_condition(long_message(mode), 0, 4, 0),
                             about=f"one long message (2047..4100 characters) + a short one, read in 1024/700/2048/4096-character chunks, threshold {mode}",
                             encodes=ENC, bounds="concrete contents, symbolic length/chunk index", timeout=900))
    return out


def long_message(mode):
    def body(d: Draw):
        L = d.choice((1500, 2047, 2048, 2049, 3000, 4100), "length")
        R = d.choice((1024, 700, 2048, 4096), "chunk")
        if mode == "default" and L > 2048:
            raise Reject()       # longer than the threshold: not claimed (see C08 finding)
        # Latin-1 text too: lengths are counted in characters, whatever the encoding
        fill = d.choice(("x", "\xe9"), "fill-character")
        m1 = "<a " + fill * (L - 5) + "/>"
        m2 = "<b/>"
        stream = m1 + "\n" + m2 + "\n"
        oracle = GroundTruthOracle([m1, m2], limit=400)
        buf = make_buffer(oracle, ["a", "b"], None if mode == "disabled" else 2048)
        if mode == "default":
            # the constructor's own default must be the documented 2048
            import indi.transport.buffer as B
            if B.Buffer().max_buffer_size_before_frontal_cleanup != 2048:
                return verdict(False, "default threshold is not 2048")
        got = []

        def cb(m):
            oracle.wd.tick()
            got.append(m)
        pos = 0
        try:
            while pos < len(stream):
                buf.append(stream[pos:pos + R])
                pos += R
                buf.process(cb)
        except NoProgress:
            return verdict(False, "process() does not terminate")
        return verdict([t.index for t in got if t is not None] == [0, 1] and len(got) == 2,
                       "a long message was not delivered intact")
    return body


def validate_stubs():
    from props.bufferlib import validate_xml_facts
    return validate_xml_facts()


def signature(cond_name, args, detail):
    tr = " ".join((detail or {}).get("trace", []))
    if "does not terminate" in tr:
        return "C02:no-termination"
    if "callback called with None" in tr:
        return "C02:callback-none"
    return "C02:" + cond_name.split("/")[-1] + ":lost-or-late"
