"""C15 -- the client mirrors any server's property stream faithfully and survives it.

enc: BaseClient.process_message / set_device / blob_handshake,
client.Device.process_message, client.Vector.__init__ / from_message /
process_message, client.Element.from_message / process_message /
set_value_from_message, client.BLOB.set_value_from_message, and (loop
condition) client.tcp.ConnectionHandler.wait_for_messages.

Inductive step: a mirror built by real def* messages with symbolic contents
over a small universe (2 devices x 2 vectors x 2 elements, two layouts that
between them hold all five vector kinds) + one symbolic message: kind by
condition, device / vector / element names by symbolic index incl. unknown
ones, state by index, child values symbolic.  Asserted: nothing raised and the
client's public view equals ref_step(view before, message), the reference
interpreter of clientlib (written from the INDI rules, no shared code).
"""
from __future__ import annotations

from props.clientlib import (ALT, DEVS, ELS, KINDS, NOMINAL, STATES, VECS, child_for, client_view, def_message,
                             recording_client, ref_step, ref_view, set_message, views_equal)
from props.common import Condition, Draw, Reject, make_condition, msg_class, verdict, note, MODE

ENC = ("indi.client.client.BaseClient.process_message", "indi.client.client.BaseClient.set_device",
       "indi.client.client.BaseClient.blob_handshake", "indi.client.device.Device.process_message",
       "indi.client.vectors.Vector.__init__", "indi.client.vectors.Vector.from_message",
       "indi.client.vectors.Vector.process_message", "indi.client.elements.Element.from_message",
       "indi.client.elements.Element.process_message", "indi.client.elements.Element.set_value_from_message",
       "indi.client.elements.BLOB.set_value_from_message")
BOUNDS = {"quick": "universe 3 device names x 3 vector names x 3 element names (one of each unknown), 2 layouts, every def*/set*/delProperty/"
                   "message/ping kind, 1-2 children, text values len<=1 symbolic, BLOB payload absent/empty/2 bytes; one message after the pre-state",
          "thorough": "as quick plus two-message sequences"}
OUTSIDE = "foreign spellings and fragmentation (premises C02/C03); definitions with two children of the same name; invalid base64 / wrong declared size"
ASSUMPTIONS = ["names come from a concrete universe through symbolic indices (they become dict keys)",
               "a set* of the wrong kind for an existing property is ignored entirely; an empty BLOB payload denotes the empty byte string"]

LAYOUTS = {
    "A": {"D1": {"V1": ("Text", ("E1", "E2")), "V2": ("Switch", ("E1", "E2"))}, "D2": {"V1": ("Number", ("E1",))}},
    "B": {"D1": {"V1": ("BLOB", ("E1", "E2")), "V2": ("Light", ("E1",))}, "D2": {"V1": ("Text", ("E1",))}},
}


def draw_value(d: Draw, kind, tag):
    if kind == "Text":
        return d.str(1, tag)
    if kind == "Number":
        return d.choice(("1", "2.5", "-3"), tag)
    if kind == "Switch":
        return d.choice(("On", "Off"), tag)
    if kind == "Light":
        return d.choice(("Ok", "Busy", "Alert"), tag)
    if kind == "BLOB":
        return d.choice((None, b"", b"\x01\x02"), tag)
    raise AssertionError(kind)


def build_pre(d: Draw, layout, client, symbolic_text=True):
    """Feeds def messages to the client and the reference alike."""
    ref = {}
    for dev, vecs in LAYOUTS[layout].items():
        for vname, (kind, els) in vecs.items():
            kids = []
            for e in els:
                if kind == "Text" and symbolic_text:
                    v = d.str(1, "pre-text")
                else:
                    v = NOMINAL[kind]
                kids.append(child_for(kind, "def", e, v))
            m = def_message(kind, dev, vname, "Ok", kids)
            client.process_message(m)
            ref = ref_step(ref, m)
    return ref


def target_for(layout, kind):
    for dev, vecs in LAYOUTS[layout].items():
        for v, (k, els) in vecs.items():
            if k == kind:
                return dev, v
    return "D1", "V1"


def draw_message(d: Draw, op, kind, nchildren, layout=None):
    if nchildren >= 2 and layout is not None:
        # unknown / mismatching targets are covered by the 1-child conditions;
        # with 2 symbolic children the addressing is fixed to a matching target
        # (the full product was 2 300 paths / 13 min per condition)
        dev, fixed_vec = target_for(layout, kind)
    else:
        dev, fixed_vec = d.choice(DEVS, "device"), None
    if op == "del":
        name = d.choice(VECS + (None,), "name")
        return msg_class("DelProperty")(device=dev, name=name)
    if op == "other":
        which = d.choice(("Message", "PingRequest", "GetProperties", "NewTextVector"), "which")
        if which == "Message":
            return msg_class("Message")(device=dev, message="hello")
        if which == "PingRequest":
            return msg_class("PingRequest")(uid="1")
        if which == "GetProperties":
            return msg_class("GetProperties")(version="1.7", device=dev)
        return msg_class("NewTextVector")(device=dev, name="V1", children=(child_for("Text", "one", "E1", "x"),))
    name = fixed_vec if fixed_vec is not None else d.choice(VECS, "name")
    state = d.choice(("Busy", "Ok"), "state")
    kids = []
    used = []
    for i in range(nchildren):
        e = d.choice(ELS, f"element{i}")
        if e in used:
            raise Reject()     # two children of one name: outside the stream grammar
        used.append(e)
        v = draw_value(d, kind, f"value{i}")
        if op == "def":
            kids.append(child_for(kind, "def", e, None if kind == "BLOB" else v))
        else:
            kids.append(child_for(kind, "one", e, v))
    if op == "def":
        return def_message(kind, dev, name, state, kids, label="L2", group="G2", timestamp="2026-01-01T00:00:01")
    # an update stamped like the definition before it (one-second server clock) or later;
    # symbolic for the text kind, equal for the others (the bookkeeping is kind-independent)
    ts = d.choice(("2026-01-01T00:00:00", "2026-01-01T00:00:01"), "timestamp") if kind == "Text" else "2026-01-01T00:00:00"
    return set_message(kind, dev, name, state, kids, timestamp=ts)


def step(layout, op, kind, nchildren, second=None):
    def body(d: Draw):
        client = recording_client()
        ref = build_pre(d, layout, client)
        if not views_equal(client_view(client), ref_view(ref)):
            return verdict(False, "the mirror is wrong after the initial definitions")
        msgs = [draw_message(d, op, kind, nchildren, layout)]
        if second is not None:
            msgs.append(draw_message(d, second[0], second[1], 1))
        for m in msgs:
            try:
                client.process_message(m)
            except Exception as e:
                if MODE.trace is not None:
                    note("raised", repr(e), type(m).__name__, vars(m))
                return verdict(False, "process_message raised")
            ref = ref_step(ref, m)
        ok = views_equal(client_view(client), ref_view(ref))
        if MODE.trace is not None:
            note("messages", [(type(m).__name__, {k: (v if k != "children" else [(c.name, c.value) for c in v])
                                                   for k, v in vars(m).items()}) for m in msgs])
            note("client", client_view(client))
            note("reference", ref_view(ref))
        return verdict(ok, "the client's view differs from the reference interpreter")
    return body


def receive_loop():
    """The receive loop survives whatever the callback does with a message of
    the stream (client.tcp.ConnectionHandler.wait_for_messages with real
    framing on a concrete stream; the callback is the client's
    process_message)."""
    def body(d: Draw):
        import asyncio
        from indi.transport.client.tcp import ConnectionHandler
        client = recording_client()
        msgs = [
            def_message("BLOB", "D1", "V1", "Ok", [child_for("BLOB", "def", "E1", None)]),
            set_message("BLOB", "D1", "V1", "Ok", [child_for("BLOB", "one", "E1", d.choice((None, b"", b"\x01\x02"), "payload"))]),
            msg_class("DelProperty")(device="D1", name=d.choice(("V1", None), "delname")),
            def_message("Text", "D2", "V1", "Busy", [child_for("Text", "def", "E1", "x")]),
        ]
        data = b"".join(m.to_string() for m in msgs)
        cut = d.int(1, 40, "cut")

        class Reader:
            def __init__(self):
                self.chunks = [data[:cut], data[cut:], b""]

            async def read(self, n):
                return self.chunks.pop(0) if self.chunks else b""

        class Writer:
            def write(self, b):
                pass

            async def drain(self):
                pass

            def close(self):
                pass

        async def main():
            h = ConnectionHandler(Reader(), Writer(), client.process_message)
            await h.wait_for_messages()
        try:
            asyncio.run(main())
        except Exception as e:
            if MODE.trace is not None:
                note("loop died", repr(e))
            return verdict(False, "the receive loop was stopped by an exception")
        return verdict("D2" in client and "V1" in client["D2"], "the stream was not processed to its end")
    return body


def conditions(tier):
    out = []
    thorough = tier == "thorough"
    for layout in ("A", "B"):
        kinds_here = sorted({k for vs in LAYOUTS[layout].values() for (k, _) in vs.values()})
        for kind in KINDS:
            for op in ("set", "def"):
                for n in (1, 2):
                    if kind not in kinds_here and (n != 1 or layout != "A"):
                        continue   # kind mismatches / new kinds: layout A, one child
                    out.append(Condition(f"step/{layout}/{op}{kind}/{n}", make_condition(step(layout, op, kind, n), 5, 8, 0),
                                         about=f"layout {layout}: one {op}{kind}Vector with {n} children, symbolic addressing and values",
                                         encodes=ENC, bounds=f"{n} children", timeout=900))
        out.append(Condition(f"step/{layout}/delProperty", make_condition(step(layout, "del", None, 0), 3, 3, 0),
                             about="delProperty with and without a name, known and unknown targets", encodes=ENC, timeout=600))
        out.append(Condition(f"step/{layout}/other", make_condition(step(layout, "other", None, 0), 3, 3, 0),
                             about="message / pingRequest / getProperties / new*Vector arriving at a client", encodes=ENC, timeout=600))
    if thorough:
        for kind in ("Text", "Switch"):
            out.append(Condition(f"two/A/set{kind}+del", make_condition(step("A", "set", kind, 1, ("del", None)), 5, 9, 0),
                                 about="two-message sequence", encodes=ENC, timeout=1800))
            out.append(Condition(f"two/A/del+def{kind}", make_condition(step("A", "del", None, 0, ("def", kind)), 5, 9, 0),
                                 about="two-message sequence", encodes=ENC, timeout=1800))
    return out


def signature(cond_name, args, detail):
    tr = " ".join((detail or {}).get("trace", []))
    if "delProperty" in cond_name:
        return "C15:delProperty"
    if "raised" in tr:
        return "C15:" + cond_name.split("/")[2] + ":raised"
    return "C15:" + cond_name.split("/")[2]
