"""Shared harness library: symbolic draws, the TreeET twin, the INDI DTD as the
harness states it, independent structural views and message builders."""
from __future__ import annotations

import sys
from typing import Any, Callable, Dict, List, Optional, Sequence, Tuple

from vf.cond import MODE, Condition, verdict, NoProgress, note, kf_open


class HarnessError(Exception):
    """A mistake in the harness itself; reported as ERROR, never as a finding."""


class Reject(Exception):
    """Input outside the stated bounds of a condition (a precondition)."""




class Draw:
    """Hands out the symbolic parameters of a generic condition one by one."""

    def __init__(self, strs, ints, bools):
        self._s, self._i, self._b = list(strs), list(ints), list(bools)
        self.log: List[Tuple[str, Any]] = []

    def str(self, maxlen: Optional[int] = None, tag: str = "") -> str:
        if not self._s:
            raise HarnessError("harness: out of symbolic strings")
        s = self._s.pop(0)
        if maxlen is not None and len(s) > maxlen:
            raise Reject()
        self.log.append((tag or "str", s))
        return s

    def text(self, maxlen: int, tag: str = "") -> str:
        """A symbolic string that the code under test strips/iterates: bounded
        length, characters in ' '..'~' (printable ASCII incl. the blank).
        Unrestricted code points make str.strip() fork once per Unicode
        whitespace class and position (measured: >2 400 paths for len<=2)."""
        s = self.str(maxlen, tag)
        for ch in s:
            if not (" " <= ch <= "~"):
                raise Reject()
        return s

    def int(self, lo: int, hi: int, tag: str = "") -> int:
        if not self._i:
            raise HarnessError("harness: out of symbolic ints")
        i = self._i.pop(0)
        if not (lo <= i <= hi):
            raise Reject()
        self.log.append((tag or "int", i))
        return i

    def rawint(self, tag: str = "") -> int:
        if not self._i:
            raise HarnessError("harness: out of symbolic ints")
        i = self._i.pop(0)
        self.log.append((tag or "int", i))
        return i

    def bool(self, tag: str = "") -> bool:
        if not self._b:
            raise HarnessError("harness: out of symbolic bools")
        b = self._b.pop(0)
        self.log.append((tag or "bool", b))
        return b

    def choice(self, seq: Sequence, tag: str = ""):
        """A symbolic index into a concrete universe (explicit n-way fork)."""
        n = len(seq)
        if n == 1:
            return seq[0]
        i = self.int(0, n - 1, tag)
        for k in range(n - 1):
            if i == k:
                return seq[k]
        return seq[n - 1]

    def opt_str(self, maxlen: Optional[int] = None, tag: str = "") -> Optional[str]:
        """absent (None) or a symbolic string"""
        s = self.str(maxlen, tag)
        if self.bool(tag + "?"):
            return s
        return None


_COND_CACHE: Dict[Tuple[int, int, int], Any] = {}


def _cond_factory(ns: int, ni: int, nb: int):
    """Generates (once per size) a wrapper with exactly ns str, ni int and nb
    bool parameters.  The per-path cost of CrossHair grows with the number of
    parameters (measured: 72 parameters cost ~85 ms per path), so conditions
    declare what they need.  The source is registered with linecache so that
    CrossHair can read the contract."""
    key = (ns, ni, nb)
    if key in _COND_CACHE:
        return _COND_CACHE[key]
    import linecache
    params = [f"s{k}: str" for k in range(ns)] + [f"i{k}: int" for k in range(ni)] + \
             [f"b{k}: bool" for k in range(nb)]
    tup = lambda pre, n: "(" + "".join(f"{pre}{k}, " for k in range(n)) + ")"
    src = (
        "def factory(body, Draw, Reject):\n"
        f"    def cond({', '.join(params)}) -> bool:\n"
        "        \"\"\"\n"
        "        post: _\n"
        "        \"\"\"\n"
        f"        d = Draw({tup('s', ns)}, {tup('i', ni)}, {tup('b', nb)})\n"
        "        try:\n"
        "            return body(d)\n"
        "        except Reject:\n"
        "            return True\n"
        "    return cond\n"
    )
    fname = f"<vf-cond-{ns}-{ni}-{nb}>"
    linecache.cache[fname] = (len(src), None, src.splitlines(True), fname)
    ns_ = {}
    exec(compile(src, fname, "exec"), ns_)
    _COND_CACHE[key] = ns_["factory"]
    return ns_["factory"]


def make_condition(body: Callable[["Draw"], bool], ns: int = 16, ni: int = 8, nb: int = 8):
    """Wraps body(d) into a function with a typed scalar signature for CrossHair."""
    cond = _cond_factory(ns, ni, nb)(body, Draw, Reject)
    cond.__vf_body__ = body
    return cond


def default_args(fn) -> Dict[str, Any]:
    import inspect
    a: Dict[str, Any] = {}
    for name, p in inspect.signature(fn).parameters.items():
        a[name] = "" if name.startswith("s") else (0 if name.startswith("i") else False)
    return a


# ---------------------------------------------------------------------------
# TreeET: pure-Python twin of the element *tree* API (DESIGN 4.1)

class TElement:
    def __init__(self, tag, attrib=None, **extra):
        self.tag = tag
        self.attrib = dict(attrib or {})
        self.attrib.update(extra)
        self.text = None
        self.tail = None
        self._children: List["TElement"] = []

    def __iter__(self):
        return iter(self._children)

    def __len__(self):
        return len(self._children)

    def append(self, e):
        self._children.append(e)

    def get(self, k, default=None):
        return self.attrib.get(k, default)


class TreeET:
    Element = TElement

    class ParseError(Exception):
        pass

    @staticmethod
    def SubElement(parent, tag, attrib=None, **extra):
        e = TElement(tag, attrib, **extra)
        parent._children.append(e)
        return e

    @staticmethod
    def fromstring(text):
        raise AssertionError("harness: text parsing is not available on TreeET")

    @staticmethod
    def tostring(tree):
        raise AssertionError("harness: text rendering is not available on TreeET")


WS_POOL = ("", " ", "\n", "\n    ", "\t ")


class SymText:
    """Model of the str  left + core + right  where left/right are whitespace
    only and core neither starts nor ends with whitespace (precondition
    enforced by :func:`draw_core`).  It stands in for element text so that the
    parser's ``.strip()`` does not iterate an unbounded symbolic string
    (CrossHair forks once per Unicode whitespace class and position; measured
    >2 400 paths for len<=2).  Contract: str.strip() with no argument returns
    core; truthiness is non-emptiness.  Anything else the code might call is
    not modelled and fails closed (HarnessError -> ERROR, never a verdict)."""

    def __init__(self, left: str, core: str, right: str):
        self.left, self.core, self.right = left, core, right

    def strip(self, chars=None):
        if chars is not None:
            raise HarnessError("harness: SymText.strip(chars) is not modelled")
        return self.core

    def __bool__(self):
        # must be a real bool (a SymbolicBool makes CPython raise TypeError)
        if self.left or self.right:
            return True
        if len(self.core) > 0:
            return True
        return False

    def __len__(self):
        return len(self.left) + len(self.core) + len(self.right)

    def __str__(self):
        return self.left + self.core + self.right

    def plain(self) -> str:
        return self.left + self.core + self.right

    def __eq__(self, other):
        if isinstance(other, SymText):
            return self.plain() == other.plain()
        return self.plain() == other

    def __hash__(self):
        raise HarnessError("harness: SymText is not hashable")

    def split(self, *a, **k):
        # exact (delegates to str on the composed text); only cheap when the
        # text is short -- used by nobody on the unchanged tree
        return self.plain().split(*a, **k)

    def splitlines(self, *a, **k):
        return self.plain().splitlines(*a, **k)

    def replace(self, *a, **k):
        return self.plain().replace(*a, **k)

    def __getattr__(self, name):
        raise HarnessError(f"harness: SymText.{name} is not modelled")


def draw_core(d: "Draw", tag: str = "core") -> str:
    """A symbolic string with no leading/trailing whitespace: empty, one
    printable-ASCII character, or  c1 + middle + c2  with c1, c2 printable ASCII
    (no blank) and the middle unbounded and unconstrained.  Built by
    concatenation because indexing the *last* character of an unbounded symbolic
    string makes CrossHair enumerate lengths (measured: never exhausts)."""
    shape = d.int(0, 2, tag + "-shape")
    if shape == 0:
        return ""
    a = d.str(None, tag + "-first")
    if len(a) != 1 or not ("!" <= a <= "~"):
        raise Reject()
    if shape == 1:
        return a
    m = d.str(None, tag + "-middle")
    b = d.str(None, tag + "-last")
    if len(b) != 1 or not ("!" <= b <= "~"):
        raise Reject()
    return a + m + b


def as_text(v, left="", right=""):
    """Wraps a wire text into the SymText model (None stays None)."""
    if v is None:
        return None
    if isinstance(v, SymText):
        return v
    return SymText(left, v, right)


def clone(e):
    """The tree-level wire: what ET.fromstring(ET.tostring(t)) returns for t
    (contract of DESIGN 4.1, validated against the real pair by
    validate_tree_wire).  Empty text is written as an empty element and read
    back as absent text."""
    c = TElement(e.tag, dict(e.attrib))
    c.text = e.text if e.text else None
    if c.text is not None and not MODE.real and not isinstance(c.text, SymText):
        # precondition of the statements that use the wire: text carries no
        # surrounding whitespace of its own (C03: "leading/trailing whitespace
        # excluded"); foreign indentation is added by the harness as pads
        # (harnesses draw such texts with draw_core)
        c.text = SymText("", c.text, "")
    for ch in e:
        c._children.append(clone(ch))
    return c


def real_wire(e):
    """The real wire: ET.tostring then expat."""
    import xml.etree.ElementTree as RET
    return RET.fromstring(RET.tostring(e))


def tree_view(e):
    return (e.tag, tuple(sorted(e.attrib.items())), e.text if e.text else None,
            tuple(tree_view(c) for c in e))


def install_tree_et():
    """Binds TreeET (symbolic runs) or the real ElementTree (replay) into
    indi.message.base and returns the wire function to use."""
    import indi.message.base as base
    if MODE.real:
        import xml.etree.ElementTree as RET
        base.ET = RET
        return real_wire
    base.ET = TreeET
    return clone


def xml_ok(s: Optional[str]) -> bool:
    """Is s text XML 1.0 can carry and the statement of C03 covers?"""
    if s is None:
        return True
    for ch in s:
        o = ord(ch)
        if o in (0x9, 0xA):
            continue
        if o < 0x20 or o == 0xD or 0xD800 <= o <= 0xDFFF or o in (0xFFFE, 0xFFFF):
            return False
    return True


# ---------------------------------------------------------------------------
# The INDI DTD as stated by the harness (NOT read from indi.message.const)

STATES = ("Idle", "Ok", "Busy", "Alert")
PERMS = ("ro", "wo", "rw")
RULES = ("OneOfMany", "AtMostOne", "AnyOfMany")
SWITCH = ("On", "Off")
BLOBENABLE = ("Never", "Also", "Only")
NUMBERS = ("1", "-0.5", "12.25", "1:30", "-1:30:15.5", ".5", "7.", "1.0", "0.5", "7")   # incl. different spellings of one value

# field kinds: 's' free string, vocabulary tuples, 'n' number text
R, O = "required", "optional"

PART_SPECS: Dict[str, List[Tuple[str, str, Any]]] = {
    "DefText": [("name", R, "s"), ("label", O, "s"), ("value", O, "t")],
    "DefNumber": [("name", R, "s"), ("label", O, "s"), ("format", R, "s"), ("min", R, "s"),
                  ("max", R, "s"), ("step", R, "s"), ("value", R, NUMBERS)],
    "DefSwitch": [("name", R, "s"), ("label", O, "s"), ("value", R, SWITCH)],
    "DefLight": [("name", R, "s"), ("label", O, "s"), ("value", R, STATES)],
    "DefBLOB": [("name", R, "s"), ("label", O, "s")],
    "OneText": [("name", R, "s"), ("value", O, "t")],
    "OneNumber": [("name", R, "s"), ("value", R, NUMBERS)],
    "OneSwitch": [("name", R, "s"), ("value", R, SWITCH)],
    "OneLight": [("name", R, "s"), ("value", R, STATES)],
    "OneBLOB": [("name", R, "s"), ("size", R, "s"), ("format", R, "s"), ("value", O, "t")],
}

_DEFV = [("device", R, "s"), ("name", R, "s"), ("state", R, STATES), ("label", O, "s"),
         ("group", O, "s"), ("timestamp", O, "s"), ("message", O, "s")]
_DEFW = _DEFV + [("perm", R, PERMS), ("timeout", O, "s")]
_SETV = [("device", R, "s"), ("name", R, "s"), ("state", R, STATES), ("timeout", O, "s"),
         ("timestamp", O, "s"), ("message", O, "s")]
_NEWV = [("device", R, "s"), ("name", R, "s"), ("timestamp", O, "s")]

# class name -> (fields, child part class name or None)
MSG_SPECS: Dict[str, Tuple[List[Tuple[str, str, Any]], Optional[str]]] = {
    "GetProperties": ([("version", R, "s"), ("device", O, "s"), ("name", O, "s")], None),
    "EnableBLOB": ([("device", R, "s"), ("name", O, "s"), ("value", R, BLOBENABLE)], None),
    "DelProperty": ([("device", R, "s"), ("name", O, "s"), ("timestamp", O, "s"),
                     ("message", O, "s")], None),
    "Message": ([("device", O, "s"), ("timestamp", O, "s"), ("message", O, "s")], None),
    "PingRequest": ([("uid", R, "s")], None),
    "PingReply": ([("uid", R, "s")], None),
    "OneLight": ([("name", R, "s"), ("value", R, STATES)], None),
    "DefTextVector": (_DEFW, "DefText"),
    "DefNumberVector": (_DEFW, "DefNumber"),
    "DefSwitchVector": (_DEFW + [("rule", R, RULES)], "DefSwitch"),
    "DefBLOBVector": (_DEFW, "DefBLOB"),
    "DefLightVector": (_DEFV, "DefLight"),
    "SetTextVector": (_SETV, "OneText"),
    "SetNumberVector": (_SETV, "OneNumber"),
    "SetSwitchVector": (_SETV, "OneSwitch"),
    "SetBLOBVector": (_SETV, "OneBLOB"),
    "SetLightVector": (_SETV, "OneLight"),
    "NewTextVector": (_NEWV, "OneText"),
    "NewNumberVector": (_NEWV, "OneNumber"),
    "NewSwitchVector": (_NEWV, "OneSwitch"),
    "NewBLOBVector": (_NEWV, "OneBLOB"),
}

VECTOR_KINDS = [k for k, (f, c) in MSG_SPECS.items() if c]
PLAIN_KINDS = [k for k, (f, c) in MSG_SPECS.items() if not c]


def msg_class(name: str):
    """The repository's message class for a DTD element name (looked up in the
    repository, so that a missing or renamed class is noticed)."""
    import indi.message as M
    import indi.message.base as base
    import indi.message.one_light as ol
    if name == "OneLight":
        return ol.OneLight
    if name == "Message":
        return base.Message
    return getattr(M, name)


def part_class(name: str):
    import indi.message.def_parts as dp
    import indi.message.one_parts as op
    return getattr(dp, name, None) or getattr(op, name)


def library_message_classes():
    """Every concrete message class the library defines (walk of subclasses)."""
    import indi.message  # noqa
    import indi.message.base as base
    out = []
    todo = list(base.IndiMessage.__subclasses__())
    while todo:
        c = todo.pop()
        todo.extend(c.__subclasses__())
        if c.__subclasses__():
            # abstract family heads (DefVector, SetVector, NewVector, DefWritableVector)
            if c.__name__ in ("DefVector", "DefWritableVector", "SetVector", "NewVector"):
                continue
        if c not in out:
            out.append(c)
    return out


def draw_field(d: Draw, kind, maxlen=None, tag=""):
    if kind == "s":
        return d.str(maxlen, tag)
    if kind == "t":
        return d.str(maxlen, tag)
    return d.choice(kind, tag)


def draw_kwargs(d: Draw, fields, maxlen=None, optional="present", textlen=None):
    """Symbolic constructor arguments for a DTD field list.

    optional: 'present' (every optional field is a symbolic string),
              'symbolic' (a presence bit per optional field),
              'absent'."""
    kw = {}
    for name, req, kind in fields:
        ml = textlen if kind == "t" and textlen is not None else maxlen
        if req == R or optional == "present":
            kw[name] = draw_field(d, kind, ml, name)
        elif optional == "symbolic":
            v = draw_field(d, kind, ml, name)
            if d.bool(name + "?"):
                kw[name] = v
            else:
                kw[name] = None
        else:
            kw[name] = None
    return kw


# ---------------------------------------------------------------------------
# Independent structural view of message objects (shares no code with indi)

def part_view(p):
    attrs = []
    for k in sorted(vars(p)):
        v = vars(p)[k]
        if k == "value" or v is None:
            continue
        attrs.append((k, str(v)))
    val = None if getattr(p, "value", None) is None else str(p.value)
    return (type(p).__name__, tuple(attrs), val)


def msg_view(m):
    attrs = []
    for k in sorted(vars(m)):
        v = vars(m)[k]
        if k in ("children", "value") or v is None:
            continue
        attrs.append((k, str(v)))
    val = None if getattr(m, "value", None) is None else str(m.value)
    kids = None
    if hasattr(m, "children"):
        kids = tuple(part_view(c) for c in m.children)
    return (type(m).__name__, tuple(attrs), val, kids)


def run_replay_default(cond: Condition, args: Dict[str, Any]):
    """Concrete re-execution of a condition on the real (unstubbed) pieces."""
    MODE.real = True
    MODE.reach = False
    MODE.trace = []
    full = default_args(cond.fn)
    full.update({k: v for k, v in (args or {}).items() if k in full})
    try:
        ok = cond.fn(**full)
        detail = {"returned": bool(ok), "trace": [repr(t)[:300] for t in MODE.trace][:40]}
        return (not ok), detail
    except Exception as e:  # the property was violated by an escaping exception
        import traceback
        return True, {"raised": repr(e)[:300],
                      "tb": traceback.format_exc()[-1500:],
                      "trace": [repr(t)[:300] for t in MODE.trace][:40]}
