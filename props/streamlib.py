"""Fake streams for the connection handlers, on either loop (VLoop for symbolic
runs, real asyncio for replays).  Public surface = what the handlers use:
reader.read(n) / readline(); writer.write(b) / drain() / close();
aiofiles-like stdout.write(s) / flush().

`sleep` is the loop-appropriate sleep coroutine function (va.sleep); delays are
instants on the virtual clock and may be symbolic.  NEVER = an awaitable that
does not complete.
"""
from __future__ import annotations

from typing import Any, Callable, List, Optional

NEVER = "never"


class ReadError(Exception):
    pass


class WriteError(Exception):
    pass


class FakeReader:
    """script: list of items; an item is bytes/str (data), None (EOF) or an
    Exception instance (raised by read)."""

    def __init__(self, va, script, delay=1):
        self.va, self.script, self.delay = va, list(script), delay
        self.reads = 0

    async def _next(self):
        self.reads += 1
        await self.va.sleep(self.delay)
        if not self.script:
            return None
        item = self.script.pop(0)
        if isinstance(item, Exception):
            raise item
        return item

    async def read(self, n=-1):
        item = await self._next()
        return b"" if item is None else item

    async def readline(self):
        item = await self._next()
        return "" if item is None else item


class FakeWriter:
    """TCP StreamWriter: write() appends synchronously, drain() completes after
    the next delay of `drain_delays` (default 0) or never, or raises."""

    def __init__(self, va, label, drain_delays=None, fail_at: Optional[int] = None, close_raises=False):
        self.va, self.label = va, label
        self.chunks: List[bytes] = []
        self.drain_delays = list(drain_delays or [])
        self.drains = 0
        self.fail_at = fail_at
        self.closed = False
        self.close_raises = close_raises
        self.writes_after_close = 0

    def write(self, data):
        if self.closed:
            self.writes_after_close += 1
        self.chunks.append(data)

    async def drain(self):
        i = self.drains
        self.drains += 1
        if self.fail_at is not None and i == self.fail_at:
            raise WriteError("connection reset by peer")
        d = self.drain_delays[i] if i < len(self.drain_delays) else 0
        if d == NEVER:
            await self.va.loop_future()
        else:
            await self.va.sleep(d)

    def close(self):
        self.closed = True
        if self.close_raises:
            raise WriteError("close failed")


class FakeTextOut:
    """aiofiles-like stdout: each write()/flush() is submitted to a thread pool;
    the data reaches the stream when the call completes, after an arbitrary
    delay that is independent of the other submitted calls (executor contract,
    DESIGN 4.3)."""

    def __init__(self, va, delays):
        self.va = va
        self.delays = list(delays)
        self.calls = 0
        self.chunks: List[str] = []

    async def write(self, data):
        i = self.calls
        self.calls += 1
        d = self.delays[i] if i < len(self.delays) else 0
        await self.va.sleep(d)
        self.chunks.append(data)

    async def flush(self):
        i = self.calls
        self.calls += 1
        d = self.delays[i] if i < len(self.delays) else 0
        await self.va.sleep(d)


def never_future_support(va, loop):
    """Gives `va` a loop_future() that never completes, on both loops."""
    if hasattr(loop, "create_future") and not hasattr(loop, "loop"):
        def lf():
            return _aw(loop.create_future())
    else:
        import asyncio

        def lf():
            return _aw(asyncio.get_event_loop().create_future())
    va.loop_future = lf


async def _aw(f):
    return await f
