"""Driver factories for the device-side properties.  Driver classes are created
inside the condition (per path): a module-level Driver subclass accumulates
event handlers on its shared definition objects at every instantiation
(DESIGN 3.1, isolation between paths)."""
from __future__ import annotations

from typing import Dict, List, Optional


def rec_router():
    """A real Router with one recording client (default BLOB policy) and one
    client that enabled BLOBs for every device name used by the harnesses."""
    from indi.routing.router import Router
    from indi.routing import Client

    class Rec(Client):
        def __init__(self, label):
            self.label = label
            self.got: List = []

        def message_from_device(self, message):
            self.got.append(message)

    r = Router()
    ctl = Rec("control")
    r.register_client(ctl)
    return r, ctl


_SW_CLASSES: Dict = {}


def switch_driver(rule: str, n: int, default_on=None, vec_enabled=True, name="DEV"):
    """The class is cached per shape (it declares no @on handlers, so nothing
    accumulates on its shared definitions); the instance, router and client
    are fresh on every path."""
    key = (rule, n, default_on, vec_enabled, name)
    if key not in _SW_CLASSES:
        _SW_CLASSES[key] = _switch_driver_class(rule, n, default_on, vec_enabled, name)
    router, ctl = rec_router()
    drv = _SW_CLASSES[key](router=router)
    return drv, router, ctl


def _switch_driver_class(rule, n, default_on, vec_enabled, name):
    from indi.device import Driver, properties
    elements = {f"s{i}": properties.Switch(f"S{i}") for i in range(n)}
    kw = dict(rule=rule, elements=elements, enabled=vec_enabled)
    if default_on is not None:
        kw["default_on"] = default_on

    class SwDriver(Driver):
        main = properties.Group("MAIN", vectors=dict(sw=properties.SwitchVector("SW", **kw)))

    SwDriver.name = name
    return SwDriver


def switch_bits(vec) -> List[bool]:
    """Reads the raw state without raising Read events."""
    return [el._value == "On" for el in vec._elements.values()]


# ---------------------------------------------------------------------------
# A driver with all five vector kinds, two groups and inheritance (cached: it
# declares no @on handlers).

_RICH: Dict = {}
NUMBER_VALUES = (0, 1, -2, 2.5, 12.25, 100)


def rich_driver_classes():
    from indi.device import Driver, properties
    if "cls" in _RICH:
        return _RICH["cls"]

    class Base(Driver):
        name = "BASE"
        main = properties.Group("MAIN", vectors=dict(
            txt=properties.TextVector("TXT", label="Text", elements=dict(
                a=properties.Text("A", label="a label", default="alpha"), b=properties.Text("B", default="beta"))),
            sw=properties.SwitchVector("SW", rule="OneOfMany", default_on="S0", elements=dict(
                s0=properties.Switch("S0"), s1=properties.Switch("S1"), s2=properties.Switch("S2"))),
        ))

    class Mid(Base):
        name = "MID"
        aux = properties.Group("AUX", vectors=dict(
            num=properties.NumberVector("NUM", perm="ro", elements=dict(
                n=properties.Number("N", format="%.2f", min=-10, max=10, step=0.5, default=1),
                m=properties.Number("M", format="%d", default=3),
                s=properties.Number("S", format="%.3m", default=2.5))),
            li=properties.LightVector("LI", elements=dict(l0=properties.Light("L0"), l1=properties.Light("L1", default="Busy"))),
        ))

    class Rich(Mid):
        name = "DEV"
        img = properties.Group("IMG", vectors=dict(
            blob=properties.BLOBVector("BLOB", elements=dict(x=properties.BLOB("X"), y=properties.BLOB("Y"))),
            any=properties.SwitchVector("ANY", rule="AnyOfMany", elements=dict(p=properties.Switch("P"), q=properties.Switch("Q"))),
        ))

    class Other(Driver):
        name = "OTHER"
        main = properties.Group("MAIN", vectors=dict(
            txt=properties.TextVector("TXT", elements=dict(a=properties.Text("A", default="other")))))

    _RICH["cls"] = (Rich, Other, Mid, Base)
    return _RICH["cls"]


def vector_kind(vec) -> str:
    return type(vec).__name__.replace("Vector", "")


def expected_def_view(vec, dev_name):
    """What the definition of an enabled vector must say, computed from the
    driver's public attributes and the INDI rules (numbers as the format
    renders them).  Same shape as props.common.msg_view, timestamps dropped."""
    from indi.device import values
    kind = vector_kind(vec)
    d = vec._definition
    attrs = {"device": dev_name, "name": d.name, "group": vec.group.name, "label": d.label, "state": vec._state}
    if kind != "Light":
        attrs["perm"] = d.perm
        attrs["timeout"] = str(d.timeout)
    if kind == "Switch":
        attrs["rule"] = d.rule
    kids = []
    for k, e in vec._elements.items():
        if not e.enabled:
            continue
        ed = e._definition
        ca = {"name": ed.name, "label": ed.label}
        val = e._value
        if kind == "Number":
            ca.update(format=ed.format, step=str(ed.step))
            # absent metadata cannot be rendered; whether the message is still a
            # valid definition is the re-parse assertion's business
            if ed.min is not None:
                ca["min"] = str(ed.min)
            if ed.max is not None:
                ca["max"] = str(ed.max)
            val = values.num_to_str(val, ed.format)
        elif kind == "BLOB":
            val = None
        kids.append((f"Def{kind}", tuple(sorted(ca.items())), None if val is None else str(val)))
    return (f"Def{kind}Vector", tuple(sorted(attrs.items())), None, tuple(kids))


def strip_timestamp(view):
    cls, attrs, val, kids = view
    return (cls, tuple((k, v) for k, v in attrs if k != "timestamp"), val, kids)


def variant_b_classes():
    """A second definition: inheritance depth 2, a group and a vector that are
    disabled by definition, an AtMostOne switch vector, a wide-format number."""
    from indi.device import Driver, properties
    if "b" in _RICH:
        return _RICH["b"]

    class BBase(Driver):
        name = "BBASE"
        hid = properties.Group("HID", enabled=False, vectors=dict(
            txt=properties.TextVector("HTXT", elements=dict(a=properties.Text("A", default="hidden")))))

    class B(BBase):
        name = "DEVB"
        vis = properties.Group("VIS", vectors=dict(
            amo=properties.SwitchVector("AMO", rule="AtMostOne", elements=dict(
                x=properties.Switch("X"), y=properties.Switch("Y"), z=properties.Switch("Z"))),
            off=properties.NumberVector("OFFNUM", enabled=False, elements=dict(
                n=properties.Number("N", format="%6.2f", default=1.5), d=properties.Number("D", format="%010.6m", default=-0.5))),
            txt=properties.TextVector("VTXT", state="Busy", perm="ro", elements=dict(a=properties.Text("A", default="seen"))),
        ))

    _RICH["b"] = (B, BBase)
    return _RICH["b"]
