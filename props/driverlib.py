"""Driver factories for the device-side properties.  Driver classes are created
inside the condition (per path): a module-level Driver subclass accumulates
event handlers on its shared definition objects at every instantiation
(DESIGN 3.1, isolation between paths)."""
from __future__ import annotations

from typing import Dict, List, Optional


def rec_router():
    """A real Router with one recording client (default BLOB policy) and one
    client that enabled BLOBs for every device name used by the harnesses."""
    from indi.routing.router import Router
    from indi.routing import Client

    class Rec(Client):
        def __init__(self, label):
            self.label = label
            self.got: List = []

        def message_from_device(self, message):
            self.got.append(message)

    r = Router()
    ctl = Rec("control")
    r.register_client(ctl)
    return r, ctl


_SW_CLASSES: Dict = {}


def switch_driver(rule: str, n: int, default_on=None, vec_enabled=True, name="DEV"):
    """The class is cached per shape (it declares no @on handlers, so nothing
    accumulates on its shared definitions); the instance, router and client
    are fresh on every path."""
    key = (rule, n, default_on, vec_enabled, name)
    if key not in _SW_CLASSES:
        _SW_CLASSES[key] = _switch_driver_class(rule, n, default_on, vec_enabled, name)
    router, ctl = rec_router()
    drv = _SW_CLASSES[key](router=router)
    return drv, router, ctl


def _switch_driver_class(rule, n, default_on, vec_enabled, name):
    from indi.device import Driver, properties
    elements = {f"s{i}": properties.Switch(f"S{i}") for i in range(n)}
    kw = dict(rule=rule, elements=elements, enabled=vec_enabled)
    if default_on is not None:
        kw["default_on"] = default_on

    class SwDriver(Driver):
        main = properties.Group("MAIN", vectors=dict(sw=properties.SwitchVector("SW", **kw)))

    SwDriver.name = name
    return SwDriver


def switch_bits(vec) -> List[bool]:
    """Reads the raw state without raising Read events."""
    return [el._value == "On" for el in vec._elements.values()]
