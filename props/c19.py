"""C19 -- outbound messages are whole and in order under every I/O schedule.

enc: server.tcp.ConnectionHandler.message_from_device / send,
server.tty.ConnectionHandler.message_from_device / _write,
client.tcp.ConnectionHandler.send_message / send -- the real coroutines on the
VLoop model, with fake streams whose completion instants are symbolic.

Symbolic: the completion delay of every drain / write / flush awaitable
(unbounded non-negative integers: paths are completion orders), one connection
whose drain never completes, whether the burst is routed in one loop iteration
or in successive ones.  Asserted: the chunks recorded by each fake stream,
concatenated, equal the concatenation of the routed messages' serialisations in
routing order; routing returns without awaiting; a stalled connection delays
nobody else.
"""
from __future__ import annotations

from props.common import Condition, Draw, NoProgress, Reject, make_condition, verdict, note, MODE
from props import vloop
from props.routerlib import make_message
from props.streamlib import NEVER, FakeReader, FakeTextOut, FakeWriter, never_future_support

ENC = ("indi.transport.server.tcp.ConnectionHandler.message_from_device", "indi.transport.server.tcp.ConnectionHandler.send",
       "indi.transport.server.tty.ConnectionHandler.message_from_device", "indi.transport.server.tty.ConnectionHandler._write",
       "indi.transport.client.tcp.ConnectionHandler.send_message", "indi.transport.client.tcp.ConnectionHandler.send")
BOUNDS = {"quick": "bursts of 2..3 messages, 1-2 connections, every completion delay an unbounded symbolic integer, one never-completing drain, "
                   "same-iteration or successive routing",
          "thorough": "bursts of up to 4 messages"}
OUTSIDE = "real sockets / real thread pool (the executor contract of DESIGN 4.3 stands for aiofiles); bursts longer than the bound"
ASSUMPTIONS = ["VLoop ordering contract (validated against the real loop every run)",
               "aiofiles: a submitted call completes after an arbitrary delay independent of other submitted calls"]


def messages(n, large=False):
    kinds = ["SetTextVector", "DefSwitchVector", "Message", "DelProperty"]
    out = [make_message(kinds[i % 4], "DEV", nonce=f"n{i}") for i in range(n)]
    if large:
        # a BLOB-sized message first: whole-and-in-order must not depend on the size
        out[0] = make_message("SetTextVector", "DEV", nonce="B" * 9000)
    return out


def draw_delays(d: Draw, n, tag):
    out = []
    for i in range(n):
        x = d.rawint(f"{tag}{i}")
        if x < 0:
            raise Reject()
        out.append(x)
    return out


def settle(loop, horizon):
    try:
        loop.run_until_idle(horizon)
    except NoProgress:
        return False
    return True


def horizon_of(delays):
    h = 0
    for x in delays:
        if x != NEVER:
            h = h + x
    return h + 6


def tcp_server(n, stalled_second, large=False):
    def body(d: Draw):
        loop, va = vloop.install_for_mode()
        never_future_support(va, loop)
        from indi.transport.server.tcp import ConnectionHandler
        ConnectionHandler.connections = []
        from indi.routing.router import Router
        router = Router()
        msgs = messages(n, large)
        delays1 = draw_delays(d, n, "drain")
        if MODE.real:
            delays1 = vloop.compress_instants(delays1 + [0])[:n]
        w1 = FakeWriter(va, "c1", delays1)
        h1 = ConnectionHandler(FakeReader(va, []), w1, router)
        w2 = h2 = None
        if stalled_second:
            w2 = FakeWriter(va, "c2", [NEVER])
            h2 = ConnectionHandler(FakeReader(va, []), w2, router)
        successive = d.bool("successive-iterations")
        returned = []

        def route(m):
            router.process_message(m, sender=None)
            returned.append(m)
        if successive:
            for i, m in enumerate(msgs):
                loop.call_at(i, route, m)
        else:
            loop.call_at(0, lambda: [route(m) for m in msgs])
        if not settle(loop, horizon_of(delays1) + n):
            return verdict(False, "the loop never becomes idle")
        want = b"".join(m.to_string() for m in msgs)
        got = b"".join(w1.chunks)
        if MODE.trace is not None:
            note("delays", delays1, "successive", successive, "chunks", len(w1.chunks), "errors", [repr(e) for _, e in loop.task_errors])
        if len(returned) != n:
            return verdict(False, "routing did not return")
        if got != want:
            return verdict(False, "output of the healthy connection is not the routed messages in order")
        if stalled_second and (len(w2.chunks) < 1 or w2.chunks[0] != msgs[0].to_string()):
            return verdict(False, "the stalled connection did not even get its first message")
        return verdict(not loop.task_errors, "a send task died")
    return body


def tcp_client(n, large=False):
    def body(d: Draw):
        loop, va = vloop.install_for_mode()
        never_future_support(va, loop)
        from indi.transport.client.tcp import ConnectionHandler
        msgs = messages(n, large)
        delays = draw_delays(d, n, "drain")
        if MODE.real:
            delays = vloop.compress_instants(delays + [0])[:n]
        w = FakeWriter(va, "server", delays)
        h = ConnectionHandler(FakeReader(va, []), w, lambda m: None)
        successive = d.bool("successive-iterations")
        if successive:
            for i, m in enumerate(msgs):
                loop.call_at(i, h.send_message, m)
        else:
            loop.call_at(0, lambda: [h.send_message(m) for m in msgs])
        if not settle(loop, horizon_of(delays) + n):
            return verdict(False, "the loop never becomes idle")
        want = b"".join(m.to_string() for m in msgs)
        return verdict(b"".join(w.chunks) == want and not loop.task_errors,
                       "client output is not the sent messages in order")
    return body


def tty(n):
    def body(d: Draw):
        loop, va = vloop.install_for_mode()
        never_future_support(va, loop)
        from indi.transport.server.tty import ConnectionHandler
        from indi.routing.router import Router
        router = Router()
        msgs = messages(n)
        delays = draw_delays(d, 2 * n, "io")      # write, flush per message
        if MODE.real:
            delays = vloop.compress_instants(delays + [0])[:2 * n]
        out = FakeTextOut(va, delays)
        h = ConnectionHandler(router, FakeReader(va, []), out)
        successive = d.bool("successive-iterations")
        if successive:
            for i, m in enumerate(msgs):
                loop.call_at(i, router.process_message, m, None)
        else:
            loop.call_at(0, lambda: [router.process_message(m, None) for m in msgs])
        if not settle(loop, horizon_of(delays) + n):
            return verdict(False, "the loop never becomes idle")
        want = "".join(m.to_string().decode("latin1") for m in msgs)
        got = "".join(out.chunks)
        if MODE.trace is not None:
            note("delays", delays, "successive", successive, "order", [c[:30] for c in out.chunks])
        return verdict(got == want and not loop.task_errors, "TTY output is not the routed messages in order")
    return body


def conditions(tier):
    out = []
    thorough = tier == "thorough"
    sizes = (2, 3, 4) if thorough else (2, 3)
    for n in sizes:
        out.append(Condition(f"tcp-server/{n}", make_condition(tcp_server(n, False), 0, n, 1),
                             about=f"{n} messages routed to one TCP connection, symbolic drain delays", encodes=ENC, timeout=900))
        out.append(Condition(f"tcp-server/{n}+stalled", make_condition(tcp_server(n, True), 0, n, 1),
                             about=f"{n} messages, a second connection whose drain never completes", encodes=ENC, timeout=900))
        out.append(Condition(f"tcp-client/{n}", make_condition(tcp_client(n), 0, n, 1),
                             about=f"client sends {n} messages, symbolic drain delays", encodes=ENC, timeout=900))
        out.append(Condition(f"tty/{n}", make_condition(tty(n), 0, 2 * n, 1),
                             about=f"{n} messages on the TTY channel, symbolic write/flush completion delays", encodes=ENC,
                             timeout=1800))
    out.append(Condition("tcp-server/2-large", make_condition(tcp_server(2, False, True), 0, 2, 1),
                         about="a 9 kB message followed by a small one on a TCP server connection", encodes=ENC, timeout=900))
    out.append(Condition("tcp-client/2-large", make_condition(tcp_client(2, True), 0, 2, 1),
                         about="a 9 kB message followed by a small one on the client connection", encodes=ENC, timeout=900))
    return out


def validate_stubs():
    from props import c17
    return c17.validate_stubs()


def signature(cond_name, args, detail):
    return "C19:" + cond_name.split("/")[0]
