"""C04 -- client messages reach exactly the addressed devices.

enc: Router.__init__/register_device/register_client/unregister_client/
process_message/process_enable_blob, Driver.accepts (through real Driver
instances in the `drivers` conditions), the direction flags of every message
class.

Inductive step: an arbitrary router state of the bounded universe (which of 3
devices -- named A, named B, catch-all -- and which of 3 clients are
registered, the BLOB policy of the non-sender clients for the addressed name;
written into the real Router object) + one client-originated message of
symbolic addressing.  k-step: the same state reached through the public API
from the initial state by symbolic operations.  Asserted: the multiset of
deliveries recorded by the endpoints equals the reference.
"""
from __future__ import annotations

from props.common import Condition, Draw, make_condition, verdict, note, MODE, MSG_SPECS
from props.routerlib import (CLIENT_KINDS, DEVICE_KINDS, NAMES, POLICIES, direction_table, endpoints,
                             make_message, ref_accepts)

ENC = ("indi.routing.router.Router.process_message", "indi.routing.router.Router.process_enable_blob",
       "indi.routing.router.Router.register_device", "indi.routing.router.Router.register_client",
       "indi.routing.router.Router.unregister_client", "indi.device.driver.Driver.accepts",
       "indi.message.*.from_client/from_device")
BOUNDS = {
    "quick": "3 devices (A, B, catch-all; also two devices named A), 3 clients, names {A, B, none, unknown}, every client-originated "
             "kind; inductive step from every state of the universe + 2-step histories from the initial state",
    "thorough": "as quick with 3-step histories for getProperties and newTextVector (reduced policy operations)",
}
OUTSIDE = "more than 3 devices/clients; registering the same endpoint twice; enableBLOB from a sender that is not a registered client"
ASSUMPTIONS = ["the sender of a client message is a registered client (documented use of the router)",
               "device names that become dict keys come from a concrete universe selected by a symbolic index (data independence: "
               "the router only compares names for equality)"]


def check_deliveries(router, devices, clients, sender, kind, name, msg, registered_devices, registered_clients,
                     policy_of):
    """Compare recorded deliveries with the reference; returns (ok, why)."""
    fc, fd = direction_table()[kind]
    for d in devices:
        want = 0
        if d in registered_devices and d is not sender and fc and ref_accepts(d.name, d.catch_all, name):
            want = registered_devices.count(d)
        got = len([m for m in d.got if m is msg])
        if got != want or len(d.got) != got:
            return False, f"device {d.label}: got {got} want {want}"
    for c in clients:
        got = len([m for m in c.got if m is msg])
        if len(c.got) != got:
            return False, "a client received something else"
        if c is sender or c not in registered_clients:
            if got != 0:
                return False, f"client {c.label} (sender or unregistered) received the message"
            continue
        if kind != "GetProperties":
            if got != 0:
                return False, f"device-bound {kind} forwarded to client {c.label}"
            continue
        pol = policy_of(c)
        if pol in (None, "Never"):
            if got != 1:
                return False, f"getProperties relayed {got} times to default-policy client {c.label}"
        elif got > 1:
            return False, f"getProperties relayed {got} times to client {c.label}"
    return True, ""


def step(kind, population):
    """Inductive step from an arbitrary state."""
    def body(d: Draw):
        from indi.routing.router import Router
        RecClient, RecDevice = endpoints()
        router = Router()
        if population == "twins":
            devs = [RecDevice("A1", "A"), RecDevice("A2", "A"), RecDevice("B", "B")]
        else:
            devs = [RecDevice("A", "A"), RecDevice("B", "B"), RecDevice("ALL", "*", catch_all=True)]
        clients = [RecClient("c0"), RecClient("c1"), RecClient("c2")]
        reg_devs = [dv for dv in devs if d.bool("dev-reg")]
        # sender c0 is registered (assumption); c1, c2 symbolic
        reg_clients = [clients[0]] + [c for c in clients[1:] if d.bool("client-reg")]
        name = d.choice(NAMES, "name")
        pols = {}
        # representation invariant of Router: blob_routing has an entry per registered client
        router.devices = list(reg_devs)
        router.clients = list(reg_clients)
        router.blob_routing = {c: {} for c in reg_clients}
        for c in reg_clients[1:]:
            if kind == "GetProperties":
                p = d.choice(POLICIES, "policy")
                pols[c] = p
                if p is not None:
                    router.blob_routing[c][name] = p
        msg = make_message(kind, name) if "device" in [f[0] for f in MSG_SPECS[kind][0]] else make_message(kind, None)
        eff_name = getattr(msg, "device", None)
        router.process_message(msg, sender=clients[0])
        ok, why = check_deliveries(router, devs, clients, clients[0], kind, eff_name, msg, reg_devs, reg_clients,
                                   lambda c: pols.get(c))
        if kind == "EnableBLOB" and ok:
            # the setting is recorded for the sender and nobody else
            for c in reg_clients:
                has = eff_name in router.blob_routing.get(c, {})
                if has != (c is clients[0]):
                    ok, why = False, "enableBLOB recorded for the wrong client"
        if MODE.trace is not None:
            note(kind, "name", name, "devs", [x.label for x in reg_devs], "clients", [c.label for c in reg_clients], why)
        return verdict(ok, why)
    return body


OPS = (["reg-dev-A", "reg-dev-B", "reg-dev-ALL", "reg-c1", "reg-c2", "unreg-c1", "unreg-c2", "nop",
        "send-A", "send-B"]   # earlier traffic must not change later routing
       + [f"blob-{c}-{n}-{p}" for c in ("c0", "c1") for n in ("A", "B") for p in ("Never", "Also", "Only")])


def history(kind, k):
    """k symbolic operations through the public API from the initial state, then one message."""
    # BLOB settings only influence the relay of getProperties
    base = [o for o in OPS if not o.startswith("blob-")]
    if kind != "GetProperties":
        ops = base + ["blob-c1-A-Only"]
    elif k <= 2:
        ops = base + [f"blob-c1-{n}-{p}" for n in ("A", "B") for p in ("Never", "Also", "Only")]
    else:
        # 3 steps: one bystander policy per device name (22^3 x 6 paths did not finish in an hour)
        ops = base + [f"blob-c1-{n}-{p}" for n in ("A", "B") for p in ("Also", "Only")]

    def body(d: Draw):
        from indi.routing.router import Router
        from indi.message import EnableBLOB
        RecClient, RecDevice = endpoints()
        router = Router()
        devs = {"A": RecDevice("A", "A"), "B": RecDevice("B", "B"), "ALL": RecDevice("ALL", "*", catch_all=True)}
        cl = {"c0": RecClient("c0"), "c1": RecClient("c1"), "c2": RecClient("c2")}
        router.register_client(cl["c0"])
        reg_devs, reg_clients = [], [cl["c0"]]
        pols = {}
        for _ in range(k):
            op = d.choice(ops, "op")
            if op.startswith("reg-dev-"):
                dv = devs[op[8:]]
                if dv in reg_devs:
                    continue  # double registration is outside the histories
                router.register_device(dv)
                reg_devs.append(dv)
            elif op.startswith("reg-c"):
                c = cl[op[4:]]
                if c in reg_clients:
                    continue
                router.register_client(c)
                reg_clients.append(c)
            elif op.startswith("unreg-c"):
                c = cl[op[6:]]
                router.unregister_client(c)
                if c in reg_clients:
                    reg_clients.remove(c)
                for key in [key for key in pols if key[0] is c]:
                    del pols[key]
            elif op.startswith("send-"):
                router.process_message(make_message("GetProperties", op[5:]), sender=cl["c0"])
            elif op.startswith("blob-"):
                _, cn, n, p = op.split("-")
                c = cl[cn]
                if c not in reg_clients:
                    continue  # assumption: sender is registered
                router.process_message(EnableBLOB(device=n, value=p), sender=c)
                pols[(c, n)] = p
        for x in list(devs.values()) + list(cl.values()):
            x.got.clear()
        name = d.choice(NAMES, "name")
        msg = make_message(kind, name) if "device" in [f[0] for f in MSG_SPECS[kind][0]] else make_message(kind, None)
        eff_name = getattr(msg, "device", None)
        router.process_message(msg, sender=cl["c0"])
        ok, why = check_deliveries(router, list(devs.values()), list(cl.values()), cl["c0"], kind, eff_name, msg,
                                   reg_devs, reg_clients, lambda c: pols.get((c, eff_name)))
        return verdict(ok, why)
    return body


def drivers(kind):
    """The same with real Driver instances as devices (Driver.accepts, send_message)."""
    def body(d: Draw):
        from indi.routing.router import Router
        from indi.device import Driver, properties
        RecClient, _ = endpoints()
        got = {}

        def mk(nm):
            class Drv(Driver):
                name = nm
                main = properties.Group("MAIN", vectors=dict(
                    t=properties.TextVector("T", elements=dict(e=properties.Text("E")))))

                def message_from_client(self, msg):
                    got.setdefault(self.name, []).append(msg)
            return Drv
        router = Router()
        c0, c1 = RecClient("c0"), RecClient("c1")
        router.register_client(c0)
        router.register_client(c1)
        # names that contain each other: addressing is by equality, not by substring
        names = ["A", "B", "AB"]
        reg = []
        for nm in names:
            if d.bool("reg-" + nm):
                mk(nm)(router=router)
                reg.append(nm)
        name = d.choice(NAMES + ("AB", ""), "name")
        msg = make_message(kind, name) if "device" in [f[0] for f in MSG_SPECS[kind][0]] else make_message(kind, None)
        eff = getattr(msg, "device", None)
        router.process_message(msg, sender=c0)
        ok = True
        for nm in names:
            want = 1 if (nm in reg and (eff is None or eff == nm)) else 0
            if len(got.get(nm, [])) != want:
                ok = False
        if c0.got:
            ok = False
        if kind != "GetProperties" and c1.got:
            ok = False
        if kind == "GetProperties" and len(c1.got) != 1:
            ok = False
        return verdict(ok, "real drivers: wrong delivery")
    return body


def conditions(tier):
    out = []
    thorough = tier == "thorough"
    for kind in CLIENT_KINDS:
        # 3-step histories: 20-26 operations per step; measured 115 000 paths / 65 min for
        # all kinds, so the thorough tier runs them for the relayed kind and one device-bound kind
        k = 3 if (thorough and kind in ("GetProperties", "NewTextVector")) else 2
        for pop in ("abc", "twins"):
            if pop == "twins" and kind not in ("GetProperties", "NewTextVector", "EnableBLOB"):
                continue
            out.append(Condition(f"step/{kind}/{pop}", make_condition(step(kind, pop), 0, 4, 6),
                                 about=f"{kind} from client c0 in an arbitrary router state ({pop})", encodes=ENC,
                                 bounds="3 devices, 3 clients, 4 names", timeout=600))
        out.append(Condition(f"history{k}/{kind}", make_condition(history(kind, k), 0, k + 2, 0),
                             about=f"{k} symbolic API operations from the initial state, then {kind}", encodes=ENC,
                             bounds=f"{k} operations out of {len(OPS)}", timeout=900))
    for kind in ("GetProperties", "NewTextVector", "EnableBLOB"):
        out.append(Condition(f"drivers/{kind}", make_condition(drivers(kind), 0, 2, 3),
                             about=f"{kind} with real Driver instances as devices", encodes=ENC, timeout=300))
    return out


def preflight():
    """The direction flags of the repository's classes must be the protocol's
    (a flipped flag changes routing and is a C04/C05 violation in itself; the
    check reports it through the conditions, this only guards the table)."""
    from props.common import library_message_classes
    missing = {c.__name__ for c in library_message_classes()} - set(MSG_SPECS)
    return [f"message class {m} is not in the harness DTD table" for m in sorted(missing)]


def signature(cond_name, args, detail):
    tr = " ".join((detail or {}).get("trace", []))
    kind = cond_name.split("/")[1]
    return f"C04:{kind}:wrong-delivery"
