"""Reference interpreter of the INDI client rules and helpers for C15/C16/C17.

The reference is written from the INDI white paper and the property statements
and shares no code with indi.client.  State: {device: {vector: Vec}}.
"""
from __future__ import annotations

from typing import Any, Dict, List, Optional, Tuple

from props.common import MSG_SPECS, PART_SPECS, msg_class, part_class

KINDS = ("Text", "Number", "Switch", "Light", "BLOB")
DEVS = ("D1", "D2", "DX")        # DX never defined in the pre-state
VECS = ("V1", "V2", "VX")
ELS = ("E1", "E2", "EX")
STATES = ("Idle", "Ok", "Busy", "Alert")


class RVec:
    def __init__(self, kind, state, label, group, elements):
        self.kind, self.state, self.label, self.group = kind, state, label, group
        self.elements: Dict[str, Any] = elements     # name -> value (BLOB: (bytes, format) or None)

    def copy(self):
        return RVec(self.kind, self.state, self.label, self.group, dict(self.elements))


def kind_of_message(m) -> Tuple[str, Optional[str]]:
    n = type(m).__name__
    for k in KINDS:
        if n == f"Def{k}Vector":
            return "def", k
        if n == f"Set{k}Vector":
            return "set", k
    if n == "DelProperty":
        return "del", None
    return "other", None


def ref_blob(child):
    """INDI: the element text is the base64 payload; absent/empty = empty bytes."""
    import base64
    raw = base64.b64decode(child.value or "")
    return (raw, child.format)


def ref_step(state: Dict[str, Dict[str, RVec]], m) -> Dict[str, Dict[str, RVec]]:
    new = {d: {v: vec.copy() for v, vec in vs.items()} for d, vs in state.items()}
    op, kind = kind_of_message(m)
    if op == "def":
        els = {}
        for c in m.children:
            els[c.name] = c.value
        new.setdefault(m.device, {})[m.name] = RVec(kind, m.state, m.label, m.group, els)
    elif op == "set":
        vec = new.get(m.device, {}).get(m.name)
        if vec is not None and vec.kind == kind:
            vec.state = m.state
            for c in m.children:
                if c.name in vec.elements:
                    vec.elements[c.name] = ref_blob(c) if kind == "BLOB" else c.value
    elif op == "del":
        if m.name is None:
            new.pop(m.device, None)
        elif m.device in new:
            new[m.device].pop(m.name, None)
    return new


def ref_view(state):
    out = []
    for d in state:
        vs = []
        for v, vec in state[d].items():
            vs.append((v, vec.kind, vec.state, vec.label, vec.group,
                       tuple((e, val) for e, val in vec.elements.items())))
        out.append((d, tuple(vs)))
    return tuple(out)


def client_view(client):
    """The client's public view in the same shape."""
    out = []
    for d in client.list_devices():
        dev = client[d]
        vs = []
        for v in dev.list_vectors():
            vec = dev[v]
            kind = type(vec).__name__.replace("Vector", "")
            els = []
            for e in vec.list_elements():
                val = vec[e].value
                if kind == "BLOB" and val is not None and not isinstance(val, str):
                    val = (val.binary, val.format)
                els.append((e, val))
            vs.append((v, kind, vec.state, vec.label, vec.group, tuple(els)))
        out.append((d, tuple(vs)))
    return tuple(out)


def views_equal(a, b) -> bool:
    """Order-insensitive comparison of two views (dict order is not part of the
    statement)."""
    if len(a) != len(b):
        return False
    da, db = dict(a), dict(b)
    for d in da:
        if d not in db:
            return False
        va, vb = {x[0]: x for x in da[d]}, {x[0]: x for x in db[d]}
        if len(va) != len(vb):
            return False
        for v in va:
            if v not in vb:
                return False
            xa, xb = va[v], vb[v]
            if xa[1] != xb[1] or xa[2] != xb[2] or xa[3] != xb[3] or xa[4] != xb[4]:
                return False
            ea, eb = dict(xa[5]), dict(xb[5])
            if len(ea) != len(eb):
                return False
            for e in ea:
                if e not in eb:
                    return False
                if ea[e] != eb[e]:
                    return False
    return True


def child_for(kind: str, family: str, name: str, value):
    """family: 'def' or 'one'."""
    if family == "def":
        cls = part_class(f"Def{kind}")
        if kind == "Number":
            return cls(name=name, format="%g", min="0", max="0", step="0", value=value, label=name)
        if kind == "BLOB":
            return cls(name=name, label=name)
        return cls(name=name, value=value, label=name)
    cls = part_class(f"One{kind}")
    if kind == "BLOB":
        import base64
        if value is None:
            return cls(name=name, size="0", format=".bin", value=None)
        raw = value
        return cls(name=name, size=str(len(raw)), format=".bin", value=base64.b64encode(raw).decode("ascii"))
    return cls(name=name, value=value)


def def_message(kind, device, name, state, children, label="L", group="G", timestamp="2026-01-01T00:00:00"):
    kw = dict(device=device, name=name, state=state, label=label, group=group, children=tuple(children), timestamp=timestamp)
    if kind != "Light":
        kw["perm"] = "rw"
    if kind == "Switch":
        kw["rule"] = "AnyOfMany"
    return msg_class(f"Def{kind}Vector")(**kw)


def set_message(kind, device, name, state, children, timestamp="2026-01-01T00:00:00"):
    # by default the SAME coarse timestamp as the definitions: a server with a
    # one-second clock sends exactly that
    return msg_class(f"Set{kind}Vector")(device=device, name=name, state=state, children=tuple(children), timestamp=timestamp)


NOMINAL = {"Text": "t0", "Number": "1", "Switch": "Off", "Light": "Ok", "BLOB": None}
ALT = {"Text": "t1", "Number": "2.5", "Switch": "On", "Light": "Busy", "BLOB": b"\x01\x02"}


def recording_client():
    from indi.client.client import BaseClient

    class RecClient(BaseClient):
        def __init__(self):
            super().__init__()
            self.sent = []

        def send_message(self, msg):
            self.sent.append(msg)

    return RecClient()
