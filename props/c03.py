"""C03 -- serialize-then-parse is the identity on protocol messages.

enc: IndiMessage.to_xml/from_xml/tag_name/register_message,
IndiMessagePart.to_xml/from_xml/_all_subclasses, every constructor,
checks.children/dictionary/number.

A valid message is built through the real constructors from symbolic fields
(attribute strings unbounded; text values unbounded with printable-ASCII end
characters, i.e. no surrounding whitespace of their own; vocabulary members by
symbolic index; presence pattern of the optional attributes by symbolic
index).  It is serialised by the real to_xml into a TreeET tree, sent over the
tree-level wire (optionally re-spelled the way a foreign peer would: attribute
order reversed, indentation text added), parsed by the real from_xml.
Asserted: no exception; same class; independent structural view equal modulo
the two normalisations of the statement; re-serialising gives an identical
tree (ordered attributes) -- identical bytes, tostring being a function of it.
"""
from __future__ import annotations

from props.common import (MSG_SPECS, PART_SPECS, VECTOR_KINDS, PLAIN_KINDS, O, R, Condition, Draw, HarnessError, Reject,
                          SymText, TElement, clone, draw_core, install_tree_et, make_condition, msg_class,
                          msg_view, part_class, verdict, library_message_classes, note, MODE, real_wire, xml_ok)

ENC = ("indi.message.base.IndiMessage.to_xml", "indi.message.base.IndiMessage.from_xml",
       "indi.message.base.IndiMessage.tag_name", "indi.message.base.IndiMessage.register_message",
       "indi.message.base.IndiMessagePart.to_xml", "indi.message.base.IndiMessagePart.from_xml",
       "indi.message.base.IndiMessagePart._all_subclasses", "indi.message.checks.*", "indi.message.*.__init__")
BOUNDS = {
    "quick": "every message kind the library defines; 0..2 children; attribute strings unbounded; text unbounded with printable-ASCII "
             "first/last character; optional attributes: all present, all absent, each one singly absent, each one singly present; "
             "foreign spelling: attribute order and indentation",
    "thorough": "as quick with 0..3 children and every subset of optional attributes for kinds with <= 4 of them",
}
OUTSIDE = ("ET.tostring / expat (contract of the tree wire, validated on a concrete corpus every run: markup characters, both quote "
           "styles, XML declaration, BMP and astral code points); carriage return; text whose first/last character is not printable ASCII")
ASSUMPTIONS = ["tree wire: fromstring(tostring(t)) is structurally t with empty text read back as absent (validated concretely)",
               "SymText: str.strip() contract", "number values from a concrete list of valid spellings (syntax is C10/C13)"]


def opt_names(fields):
    return [n for n, r, k in fields if r == O and n != "value"]


def presence_patterns(fields, full):
    """Concrete list of presence patterns (sets of absent optional names)."""
    opts = opt_names(fields)
    pats = [frozenset(), frozenset(opts)]
    for o in opts:
        pats.append(frozenset([o]))
        pats.append(frozenset(opts) - {o})
    if full and len(opts) <= 4:
        for mask in range(1 << len(opts)):
            pats.append(frozenset(o for i, o in enumerate(opts) if mask >> i & 1))
    out = []
    for p in pats:
        if p not in out:
            out.append(p)
    return out


def draw_fields(d: Draw, fields, absent, vsel, text_symbolic=True):
    kw = {}
    for name, req, k in fields:
        if name in absent:
            kw[name] = None
        elif k == "s":
            kw[name] = d.str(None, name)
        elif k == "t":
            # text value: absent, or a core (possibly empty)
            # text value: absent, or an unbounded symbolic string.  The SymText
            # model of strip() is exact only for texts without surrounding
            # whitespace -- precisely the texts the statement excludes
            # ("leading/trailing whitespace excluded"), so nothing is assumed
            # beyond the statement; replays enforce the exclusion concretely.
            # (Constraining the end characters symbolically cost 19x paths per
            # text child: measured 380 -> 2 400 paths from 1 to 2 children.)
            if req == O and text_symbolic and d.bool(name + "-absent"):
                kw[name] = None
            else:
                kw[name] = d.str(None, name)
                if MODE.real and (kw[name] != kw[name].strip() or not xml_ok(kw[name])):
                    raise Reject()
        else:
            kw[name] = k[vsel % len(k)]
    return kw


def norm_view(v):
    """The two normalisations the statement grants: empty text equals absent text."""
    cls, attrs, val, kids = v
    if val == "":
        val = None
    if kids is not None:
        kids = tuple((c, a, (None if t == "" else t)) for c, a, t in kids)
    return (cls, attrs, val, kids)


def ordered_tree(e):
    t = e.text
    if isinstance(t, SymText):
        t = t.plain()
    return (e.tag, tuple(e.attrib.items()), t if t else None, tuple(ordered_tree(c) for c in e))


def respell(t):
    """A foreign peer's spelling of the same document: attributes in reverse
    order, indentation around child elements."""
    c = TElement(t.tag, dict(reversed(list(t.attrib.items()))))
    c.text = t.text
    for ch in t:
        c.append(respell(ch))
    if len(c) and not c.text:
        c.text = SymText("\n    ", "", "") if not MODE.real else "\n    "
    return c


def roundtrip(kind, n, full):
    fields, child = MSG_SPECS[kind]
    cfields = PART_SPECS[child] if child else []
    pats = presence_patterns(fields, full)
    cpats = presence_patterns(cfields, full) if child else [frozenset()]

    # one symbolic choice over (root pattern, child pattern, vocabulary rotation):
    # a sum of cases -- the product of independent choices did not finish
    # (measured: defNumberVector with 2 children, >400 paths in 120 s)
    combos = []
    for p in pats:
        combos.append((p, frozenset()))
    for cp in cpats[1:]:
        combos.append((frozenset(), cp))
    if child:
        combos.append((pats[1], cpats[1] if len(cpats) > 1 else frozenset()))
    combos = [(p, cp, i) for i, (p, cp) in enumerate(combos)]

    def body(d: Draw):
        wire = install_tree_et()
        import indi.message  # noqa
        from indi.message.base import IndiMessage
        absent, cabs, vsel = d.choice(combos, "presence")
        foreign = d.bool("foreign")
        kw = draw_fields(d, fields, absent, vsel)
        if child:
            kids = []
            for i in range(n):
                kids.append(part_class(child)(**draw_fields(d, cfields, cabs, vsel + i, text_symbolic=(i == 0))))
            kw["children"] = tuple(kids)
        m = msg_class(kind)(**kw)
        t = m.to_xml()
        w = wire(t)
        if foreign:
            w = respell(w)
            if MODE.real:
                import xml.etree.ElementTree as RET
                w = RET.fromstring(RET.tostring(w))
        try:
            m2 = IndiMessage.from_xml(w)
        except HarnessError:
            raise
        except Exception as e:
            if MODE.trace is not None:
                note("parse failed", repr(e)[:200])
            return verdict(False, "the library cannot parse what it serialised")
        same_kind = type(m2) is type(m)
        same_view = norm_view(msg_view(m2)) == norm_view(msg_view(m))
        if MODE.trace is not None:
            note("sent", msg_view(m), "received", msg_view(m2))
        if foreign:
            return verdict(same_kind and same_view, "foreign spelling parsed to a different message")
        t2 = m2.to_xml()
        same_bytes = ordered_tree(t2) == ordered_tree(t)
        if MODE.trace is not None:
            note("tree1", ordered_tree(t), "tree2", ordered_tree(t2))
        return verdict(same_kind and same_view and same_bytes, "round trip changed the message")
    return body


INNER_WS = (" ", "  ", "\n", "\t", " \n ", "\n \n", "\n\t\n  ")   # incl. inner lines made of blanks only


def inner_whitespace(kind):
    """Text values with inner blanks, runs of blanks, newlines and tabs survive
    the round trip unchanged (only SURROUNDING white space is trimmed)."""
    fields, child = MSG_SPECS[kind]
    cfields = PART_SPECS[child] if child else []

    def body(d: Draw):
        wire = install_tree_et()
        import indi.message  # noqa
        from indi.message.base import IndiMessage
        # the two words are concrete: with symbolic characters CrossHair's model
        # of str.split() produced a counterexample that did not reproduce
        text = "x<" + d.choice(INNER_WS, "inner") + "&y"
        kw = draw_fields(d, fields, frozenset(), 0)
        if "value" in kw:
            kw["value"] = text
        if child:
            ckw = draw_fields(d, cfields, frozenset(), 0)
            if "value" in [f[0] for f in cfields if f[2] == "t"]:
                ckw["value"] = text
            kw["children"] = (part_class(child)(**ckw),)
        m = msg_class(kind)(**kw)
        try:
            m2 = IndiMessage.from_xml(wire(m.to_xml()))
        except HarnessError:
            raise
        except Exception:
            return verdict(False, "the library cannot parse what it serialised")
        return verdict(norm_view(msg_view(m2)) == norm_view(msg_view(m)), "inner white space of a text value changed in the round trip")
    return body


def conditions(tier):
    out = []
    thorough = tier == "thorough"
    for k in ("SetTextVector", "DefTextVector", "NewTextVector", "SetBLOBVector"):
        out.append(Condition(f"inner-ws/{k}", make_condition(inner_whitespace(k), 14, 3, 3),
                             about=f"{k}: text with inner blanks / newline / tab between two words (markup characters included)",
                             encodes=ENC, bounds="text = word + (one of 7 white-space runs) + word", timeout=600))
    for k in PLAIN_KINDS:
        out.append(Condition(f"roundtrip/{k}", make_condition(roundtrip(k, 0, thorough), 8, 4, 3),
                             about=f"{k}: to_xml, wire, from_xml, to_xml", encodes=ENC,
                             bounds="strings unbounded", timeout=300))
    for k in VECTOR_KINDS:
        for n in ((0, 1, 2, 3) if thorough else (0, 1, 2)):
            out.append(Condition(f"roundtrip/{k}/{n}", make_condition(roundtrip(k, n, thorough), 10 + 8 * n, 4 + n, 2 + 2 * n),
                                 about=f"{k} with {n} children: to_xml, wire, from_xml, to_xml", encodes=ENC,
                                 bounds=f"{n} children, strings unbounded", timeout=600))
    return out


def preflight():
    names = {c.__name__ for c in library_message_classes()}
    missing = names - set(MSG_SPECS)
    return [f"message class {m} is not in the harness DTD table" for m in sorted(missing)]


CORPUS_TEXTS = ["", "a", "a b", "<&>\"'", "x\ny", "é中\U0001F600", "]]>", "a  b", "&amp;", "-1:30:15.5"]


def validate_stubs():
    """Tree-wire contract against the real ET.tostring/expat pair, plus the
    spellings a foreign peer may use (declaration, quote style, indentation)."""
    import xml.etree.ElementTree as RET
    from props.common import tree_view
    res = []
    n = bad = 0
    for txt in CORPUS_TEXTS:
        for attr in CORPUS_TEXTS:
            t = TElement("setTextVector", {"device": attr, "name": "n", "state": "Ok"})
            ch = TElement("oneText", {"name": attr})
            ch.text = txt
            t.append(ch)
            r = RET.Element(t.tag, dict(t.attrib))
            rc = RET.SubElement(r, ch.tag, dict(ch.attrib))
            rc.text = txt
            back = RET.fromstring(RET.tostring(r))
            model = clone_plain(t)
            n += 1
            if tree_view(back) != tree_view(model):
                bad += 1
    res.append({"what": "tree wire == ET.fromstring(ET.tostring(.)) on the corpus", "cases": n, "ok": bad == 0,
                "detail": f"{bad} mismatches"})
    spell = [
        '<?xml version="1.0"?>\n<setTextVector device="D" name="n" state="Ok">\n  <oneText name="e">\n v \n  </oneText>\n</setTextVector>\n',
        "<setTextVector state='Ok' name='n' device='D'><oneText name='e'>v</oneText></setTextVector>",
        '<setTextVector device="D" name="n" state="Ok"><oneText name="e">v</oneText></setTextVector>',
    ]
    views = []
    for s in spell:
        e = RET.fromstring(s)
        views.append((e.tag, tuple(sorted(e.attrib.items())),
                      tuple((c.tag, tuple(sorted(c.attrib.items())), (c.text or "").strip()) for c in e)))
    res.append({"what": "foreign spellings (declaration, quotes, attribute order, indentation) give the same tree up to whitespace",
                "cases": len(spell), "ok": len(set(views)) == 1, "detail": ""})
    return res


def clone_plain(e):
    c = TElement(e.tag, dict(e.attrib))
    c.text = e.text if e.text else None
    for ch in e:
        c.append(clone_plain(ch))
    return c


def signature(cond_name, args, detail):
    tr = " ".join((detail or {}).get("trace", []))
    kind = cond_name.split("/")[1]
    if "cannot parse what it serialised" in tr:
        return f"C03:{kind}:unparsable"
    return f"C03:{kind}:changed"
