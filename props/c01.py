"""C01 -- the client view converges to the device's true property state.

enc: DriverMeta.__new__, Driver.__init__ / _all_group_definitions /
message_from_client / send_message / snoop_device, every setter of
instance/{elements,vectors,group}.py with to_def_message / to_set_message,
Router.process_message, SnoopingClient, BaseClient.process_message / handshake /
blob_handshake, client/{device,vectors,elements}.py, to_xml/from_xml (tree wire).

A three-level inherited driver (five vector kinds, three groups) and a second
device on a real Router; a client (single connection, the library's
two-connection client, or another driver's snooping client) performs the
getProperties handshake.  Inductive step: symbolic state of a focus vector
before the handshake + ONE symbolic operation after it (driver side: assign,
set_value, bool_value, state, enabled on vector / group, selected_value; client
side: assign + submit).  Asserted: the client's public view equals the view
computed from the driver's public attributes (enabled properties only, numbers
as the format renders them).  Fragmentation / text level are the premises C02
and C03 (composition, DESIGN 6 C01).
"""
from __future__ import annotations

from props.clientlib import client_view, views_equal
from props.common import Condition, Draw, Reject, make_condition, verdict, note, MODE
from props.c07 import perturb_state
from props.driverlib import NUMBER_VALUES, rich_driver_classes, vector_kind
from props.netlib import Net, library_client, single_conn_client

ENC = ("indi.device.driver.DriverMeta.__new__", "indi.device.driver.Driver.__init__", "indi.device.driver.Driver._all_group_definitions",
       "indi.device.driver.Driver.message_from_client", "indi.device.driver.Driver.send_message", "indi.device.driver.Driver.snoop_device",
       "indi.device.properties.instance.elements.*", "indi.device.properties.instance.vectors.*", "indi.device.properties.instance.group.Group.enabled",
       "indi.routing.router.Router.process_message", "indi.device.snoop.SnoopingClient", "indi.client.client.BaseClient.process_message",
       "indi.client.client.BaseClient.handshake", "indi.client.device.*", "indi.client.vectors.*", "indi.client.elements.*",
       "indi.message.base.IndiMessage.to_xml/from_xml")
BOUNDS = {"quick": "one driver definition (inheritance depth 3, 3 groups, 6 vectors of all five kinds, three switch rules across C09) + a second "
                   "device; symbolic state of a focus vector; one symbolic operation out of 8 after the handshake; 3 client kinds",
          "thorough": "two operations"}
OUTSIDE = "byte-level fragmentation and XML text (premises C02, C03); histories longer than the bound; element-level enabled changes"
ASSUMPTIONS = ["tree wire (C03)", "a client with BLOB policy Never compares BLOB vectors on existence, label and group only"]

FOCI = ("txt", "sw", "num", "li", "blob", "any")
OPS = ("assign", "set_value", "bool_value", "state", "enable-vector", "enable-group", "selected_value", "client-write")


def truth_view(drivers, blobs_visible):
    """The device's true state as a client may know it."""
    from indi.device import values
    out = []
    for drv in drivers:
        vs = []
        for vname, vec in drv._vectors.items():
            if not vec.enabled:
                continue
            kind = vector_kind(vec)
            els = []
            for k, e in vec._elements.items():
                if not e.enabled:
                    continue
                v = e._value
                if kind == "Number":
                    v = values.num_to_str(v, e._definition.format)
                elif kind == "BLOB":
                    v = (v.binary, v.format) if (v is not None and blobs_visible) else None
                els.append((e._definition.name, v))
            vs.append((vname, kind, vec._state, vec._definition.label, vec.group.name, tuple(els)))
        if vs:
            out.append((drv.name, tuple(vs)))
    return tuple(out)


def mask_blobs(view):
    """BLOB payloads are not part of what a Never-policy client can know."""
    out = []
    for d, vs in view:
        nvs = []
        for v in vs:
            if v[1] == "BLOB":
                nvs.append((v[0], v[1], None, v[3], v[4], tuple((e, None) for e, _ in v[5])))
            else:
                nvs.append(v)
        out.append((d, tuple(nvs)))
    return tuple(out)


def apply_op(d: Draw, op, drv, vec, client):
    """One operation on the focus vector; Reject when the kind has no such op."""
    from indi.device import values
    kind = vector_kind(vec)
    el = list(vec._elements.values())[0]
    if op == "state":
        vec.state_ = d.choice(("Idle", "Busy", "Alert"), "new-state")
    elif op == "enable-vector":
        vec.enabled = d.bool("on")
    elif op == "enable-group":
        vec.group.enabled = d.bool("on")
    elif op in ("assign", "set_value"):
        if kind == "Text":
            v = d.str(1, "new-text")
        elif kind == "Switch":
            v = "On" if d.bool("new-bit") else "Off"
        elif kind == "Number":
            v = d.choice(NUMBER_VALUES[::2], "new-number")
        elif kind == "Light":
            v = d.choice(("Idle", "Ok", "Busy", "Alert"), "new-light")
        else:
            v = values.BLOB(b"\x09\x08\x07", ".raw")
        if op == "assign":
            el.value = v
        else:
            el.set_value(v)
    elif op == "bool_value":
        if kind != "Switch":
            raise Reject()
        el.bool_value = d.bool("new-bool")
    elif op == "selected_value":
        if kind != "Switch":
            raise Reject()
        names = [e.name for e in vec._elements.values()]
        vec.selected_value = d.choice(names, "selected")
    elif op == "client-write":
        if kind == "Light" or not vec.enabled:
            raise Reject()
        cv = client[drv.name][vec.name]
        ce = cv[el.name]
        if kind == "Text":
            ce.value = d.str(1, "client-text")
        elif kind == "Switch":
            ce.value = "On" if d.bool("client-bit") else "Off"
        elif kind == "Number":
            ce.value = d.choice((5, 2.5, "-1.25", "1:30"), "client-number")
        else:
            ce.value = values.BLOB(b"\x01\x02", ".cli")
        cv.submit()
    else:
        raise AssertionError(op)


def norm_text(view):
    """Empty text equals absent text on the wire (C03's normalisation)."""
    out = []
    for d, vs in view:
        if not vs:
            continue      # a device entry without properties shows no property: not part of the statement
        out.append((d, tuple((v[0], v[1], v[2], v[3], v[4], tuple((e, (None if x == "" else x)) for e, x in v[5])) for v in vs)))
    return tuple(out)


def converge(focus, client_kind, ops):
    def body(d: Draw):
        from indi.routing.router import Router
        net = Net()
        Rich, Other, Mid, Base = rich_driver_classes()
        router = Router()
        drv = Rich(router=router)
        oth = Other(router=router)
        vec = perturb_state(d, drv, focus, light=True, textlen=1)
        if client_kind == "single":
            client, conn = single_conn_client(net, router)
            blobs = False
        elif client_kind == "library":
            client, ctrl, blob = library_client(net, router)
            blobs = True
        else:
            client = oth.snoop_device(None)      # another driver's in-process snooping client
            blobs = False
        if client_kind != "snoop":
            client.handshake()
        # a definition carries no BLOB payload: right after the handshake payloads
        # are unknown to every client
        want = norm_text(mask_blobs(truth_view((drv, oth), blobs)))
        got = norm_text(mask_blobs(client_view(client)))
        if MODE.trace is not None:
            note("after handshake", "client", got, "truth", want, "parse failures", len(net.parse_failures))
        if not views_equal(got, want):
            return verdict(False, "after the handshake the client does not see the device's state")
        for i, opset in enumerate(ops):
            op = d.choice(opset, f"op{i}")
            try:
                apply_op(d, op, drv, vec, client)
            except Reject:
                raise
            except Exception as e:
                if MODE.trace is not None:
                    note("operation raised", op, repr(e))
                return verdict(False, "an operation raised")
        want = norm_text(truth_view((drv, oth), blobs))
        got = norm_text(client_view(client))
        if not blobs or focus != "blob":
            want, got = mask_blobs(want), mask_blobs(got)
        if MODE.trace is not None:
            note("after ops", "client", got, "truth", want, "parse failures", [repr(x[1]) for x in net.parse_failures][:3])
        return verdict(views_equal(got, want), "after the operation the client's view differs from the device's true state")
    return body


def converge_b(op):
    """Second definition (depth 2): a group and a vector disabled BY DEFINITION,
    an AtMostOne switch vector, width/sexagesimal number formats."""
    def body(d: Draw):
        from indi.routing.router import Router
        from props.driverlib import variant_b_classes
        net = Net()
        B, BBase = variant_b_classes()
        router = Router()
        drv = B(router=router)
        client, conn = single_conn_client(net, router)
        client.handshake()
        if not views_equal(norm_text(mask_blobs(client_view(client))), norm_text(mask_blobs(truth_view((drv,), False)))):
            return verdict(False, "after the handshake the client does not see the device's state")
        target = d.choice(("HTXT", "AMO", "OFFNUM", "VTXT"), "vector")
        vec = drv._vectors[target]
        try:
            if op == "enable-group":
                vec.group.enabled = d.bool("on")
            elif op == "enable-vector":
                vec.enabled = d.bool("on")
            elif op == "state":
                vec.state_ = d.choice(("Idle", "Alert"), "new-state")
            elif op == "assign":
                el = list(vec._elements.values())[d.int(0, 1, "element") % len(vec._elements)]
                kind = vector_kind(vec)
                if kind == "Text":
                    el.value = d.str(1, "new-text")
                elif kind == "Switch":
                    el.value = "On" if d.bool("new-bit") else "Off"
                else:
                    el.value = d.choice((0, -0.25, 12.5, 100), "new-number")
            elif op == "enable-then-assign":
                vec.group.enabled = True
                vec.enabled = True
                el = list(vec._elements.values())[0]
                kind = vector_kind(vec)
                el.value = d.str(1, "new-text") if kind == "Text" else ("On" if kind == "Switch" else d.choice((0, -0.25, 12.5), "new-number"))
        except Reject:
            raise
        except Exception as e:
            if MODE.trace is not None:
                note("operation raised", op, target, repr(e))
            return verdict(False, "an operation raised")
        want = norm_text(mask_blobs(truth_view((drv,), False)))
        got = norm_text(mask_blobs(client_view(client)))
        if MODE.trace is not None:
            note("target", target, "op", op, "client", got, "truth", want, "parse failures", [repr(x[1]) for x in net.parse_failures][:3])
        return verdict(views_equal(got, want), "after the operation the client's view differs from the device's true state")
    return body


def conditions(tier):
    out = []
    thorough = tier == "thorough"
    for op in ("enable-group", "enable-vector", "state", "assign", "enable-then-assign"):
        out.append(Condition(f"variant-b/{op}", make_condition(converge_b(op), 1, 4, 2),
                             about=f"second driver definition (group and vector disabled by definition, AtMostOne, %6.2f and %010.6m numbers): {op}",
                             encodes=ENC, bounds="1-2 operations", timeout=1800))
    # one condition per (focus, client kind, operation): a path costs ~1 s here
    # (six definitions through the wire per handshake), the product of the
    # operations with the state bits did not finish in 10 minutes
    for f in FOCI:
        if thorough:
            kinds = ("single", "library", "snoop")
        else:
            kinds = {"txt": ("single", "snoop"), "blob": ("library", "single"), "sw": ("single",), "num": ("single",),
                     "li": ("snoop",), "any": ("library",)}[f]
        for ck in kinds:
            for op in OPS:
                if op in ("bool_value", "selected_value") and f not in ("sw", "any"):
                    continue
                if op == "client-write" and (f == "li" or ck == "snoop" and not thorough):
                    continue
                if not thorough and ck != kinds[0] and op not in ("assign", "enable-vector", "client-write"):
                    continue
                out.append(Condition(f"converge/{f}/{ck}/{op}", make_condition(converge(f, ck, [(op,)]), 3, 6, 6),
                                     about=f"{ck} client, symbolic state of the {f} vector, handshake, then {op} with symbolic arguments",
                                     encodes=ENC, bounds="1 operation", timeout=1800))
    if thorough:
        for f in ("txt",):
            out.append(Condition(f"converge2/{f}/single", make_condition(converge(f, "single", [("enable-vector", "enable-group", "state"), ("assign", "client-write", "enable-group")]), 4, 10, 8),
                                 about="two symbolic operations (3 x 3 kinds)", encodes=ENC, bounds="2 operations", timeout=900))
    return out


def validate_stubs():
    out = []
    from props import c03
    out += c03.validate_stubs()          # tree wire against ET.tostring / expat
    return out


def signature(cond_name, args, detail):
    return "C01:" + cond_name.split("/")[1]
