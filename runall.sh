#!/bin/bash
# Runs every quick check on the current tree, one after the other (evidence regenerated).
cd "$(dirname "$0")"
for p in C01 C02 C03 C04 C05 C06 C07 C08 C09 C10 C11 C12 C13 C14 C15 C16 C17 C18 C19 C20; do
  s=$(date +%s); ./check.sh $p ${1:-quick} > scratch/all_$p.log 2>&1; rc=$?; e=$(date +%s)
  echo "$p exit=$rc $((e-s))s $(tail -1 scratch/all_$p.log | cut -c1-150)"
done
