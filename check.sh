#!/bin/bash
# ./check.sh <ID> quick|thorough        decide one property on /repo's working tree
# ./check.sh <ID> --replay <file>       re-run a stored counterexample
cd "$(dirname "$0")"
./bootstrap.sh || { echo "bootstrap failed"; exit 2; }
exec .venv/bin/python -m vf.run "$@"
