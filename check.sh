#!/bin/bash
# ./check.sh <ID> quick|thorough        decide one property on /repo's working tree
# ./check.sh <ID> --replay <file>       re-run a stored counterexample
cd "$(dirname "$0")"
./bootstrap.sh || { echo "bootstrap failed"; exit 2; }
# the thorough tier gets four times the per-condition budgets (a timeout is INCONCLUSIVE, never success)
if [ "$2" = "thorough" ] && [ -z "$VF_TIMEOUT_SCALE" ]; then export VF_TIMEOUT_SCALE=4; fi
exec .venv/bin/python -m vf.run "$@"
